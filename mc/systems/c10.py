"""
C10 -- name-keyed flow access equals positional access, independent of the look-up history.

Three layers over the REAL `ChemicalMolarFlowIndexer` / `MolarFlowIndexer` (and the mass-flow variants) of a property
package that the harness constructs itself (1-8 chemicals, every chemical with an ID, its CAS number and a user alias,
two user groups with dyadic compositions):

  c10.keys      depth 1: every key form x every size 1..8 x phase sets x {get, set scalar, set zero, set array}
  c10.history   depth 3: ~28 actions (gets, sets, cache floods, cross-package overlap operations, set_alias,
                define_group); the two look-up caches (CompiledChemicals._index_cache, MaterialIndexer._index_caches)
                are part of the explored state (reset at build only, included in canon); a second multi-phase indexer with
                another phase set shares the package
  c10.history4  the same alphabet on one package (3 chemicals), depth 2 (quick) / 4 (thorough)
  c10.wide      ~42 actions (superset alphabet), depth 2 (quick) / 3 (thorough)
  c10.struct    phase-set growth, case-twin phase sets, copies and by_mass views (depth 3/4), see C10Struct
  c10.evict     depth 2/3 over floods of 101 / 501 / 2000 distinct valid keys followed by probe gets / sets

Reference model: a dense NumPy image of the data plus my own name table (name -> position, group -> positions +
composition).  Transition oracle: (a) the value returned by a get equals the model's entries (groups summed), a set changes
exactly the model's entries (group scalar distributed by composition) and reads back; (b) differential: the same
operation on a freshly built package + indexer holding the same data gives the same result / raises the same exception
type.  State oracle: data == dense image with no stored zero, every name of a chemical resolves to its single position,
cache sizes within their stated bounds (+1).
"""
from __future__ import annotations
import itertools
import numpy as np
from mc.engine import System, Violation, Rejected
from mc import fixtures

PROPERTY = 'C10'
RULE = ('keys: one case = (package size, phase set, indexer, encoded key, operation/value form), all enumerated; non-trivial when the '
        'get touched a non-zero entry or the set changed the data.  history/evict: BFS over action sequences; a state is the dense '
        'data + the name table + the ORDERED contents of CompiledChemicals._index_cache (both packages) and of the '
        'MaterialIndexer._index_caches entry; non-trivial when the look-up was served from a cache entry written by an earlier '
        'action, or an eviction happened, or a cross-package operation wrote a CAS-tuple entry.')
ASSUMPTIONS = [
    'chemicals drawn from 8 bundled chemicals (copies with their real CAS numbers); names per chemical: ID, CAS, one user alias (+ later set_alias), formula aliases are checked by the invariant only',
    'groups: G1 (2 members, composition 1/4,3/4, members out of positional order), G2 (<=3 members, 1/2,1/4,1/4); values dyadic so all sums are exact; comparisons are exact',
    'tuple keys with repeated chemicals are only read, never written (a write through overlapping positions is ambiguous)',
    'the (..., key) form (ellipsis in the phase position) is included as in DESIGN.md; it is classified separately in `match`',
    'floods use 101 / 501 (thorough: 2000) distinct valid tuple keys, not "several thousand per indexer" in the quick tier',
    'redefinition of an existing group / alias is outside the property (not an action)',
    'documented rejections (IndexError "multiple phases present", UndefinedPhase, UndefinedChemicalAlias, ValueError of set_alias for a claimed alias) are rejections, and must be history independent too',
]
TOLERANCES = {'value_rtol': 1e-12, 'value_atol': 0.0, 'cache_bound_slack_entries': 1}

POOL = ('Water', 'Ethanol', 'Methanol', 'Propanol', 'Glycerol', 'Octane', 'Acetone', 'AceticAcid')
VALS = (1.0, 2.5, 0.0, 0.375, 4.0, 0.5, 0.0, 8.0)
E = 'E'   # encoded ellipsis

_base = None
def _chems():
    global _base
    if _base is None:
        t = fixtures.tmo()
        _base = [t.Chemical(i, cache=True) for i in POOL]
    return _base


def make_package(order, aliases, groups):
    """Fresh compiled package: copies of the cached chemicals (real CAS), user aliases, groups.  ~1.3 ms."""
    t = fixtures.tmo()
    base = _chems()
    cs = t.Chemicals([base[i].copy(base[i].ID, CAS=base[i].CAS) for i in order])
    cs.compile()
    for pos, names in enumerate(aliases):
        for a in names: cs.set_alias(cs.IDs[pos], a)
    for name, spec in groups.items():
        members, comp = spec[0], spec[1]
        if len(spec) > 2 and spec[2]: cs.define_group(name, [cs.IDs[m] for m in members], list(comp), wt=True)
        else: cs.define_group(name, [cs.IDs[m] for m in members], list(comp))
    return cs


# ---- key encoding (actions are JSON primitives) --------------------------------------------------------------------

def dec(k):
    if k == E: return ...
    if isinstance(k, str): return k[2:]
    if k[0] == 'T': return tuple(dec(i) for i in k[1:])
    if k[0] == 'L': return [dec(i) for i in k[1:]]
    raise ValueError(k)

def s(name): return 's:' + name
def T(*items): return ('T',) + tuple(items)
def L(*items): return ('L',) + tuple(items)


class Model:
    """my own name table + dense data"""
    def __init__(self, order, phases, mass=False):
        base = _chems()
        self.order = tuple(order)
        self.N = len(order)
        self.IDs = [base[i].ID for i in order]
        self.CAS = [base[i].CAS for i in order]
        self.MW = [base[i].MW for i in order]
        self.names = {}
        self.aliases = [[] for _ in order]
        for p in range(self.N):
            self.names[self.IDs[p]] = p
            self.names[self.CAS[p]] = p
        self.groups = {}
        self.phases = tuple(sorted(set(phases)))
        self.d = np.zeros(self.N)
        self.D = np.zeros((len(self.phases), self.N))
        self.mass = mass

    def add_alias(self, pos, a):
        self.names[a] = pos; self.aliases[pos].append(a)

    def add_group(self, name, members, comp, wt=False):
        """composition given by mol (default) or by weight (wt=True).  The other basis is derived here, from the molecular
        weights of MY chemical list: x_i ~ w_i / MW_i,  w_i ~ x_i * MW_i."""
        comp = np.asarray(comp, float)
        MW = np.array([self.MW[i] for i in members], float)
        if wt: c_wt = comp; c_mol = comp / MW
        else: c_mol = comp; c_wt = comp * MW
        c = c_wt if self.mass else c_mol
        self.groups[name] = (list(members), c / c.sum())

    # -- phases
    def phase_row(self, p):
        if p in self.phases: return self.phases.index(p)
        q = p.lower() if p.isupper() else p.upper()
        if q in self.phases: return self.phases.index(q)
        return None

    def is_phase(self, x):
        return isinstance(x, str) and x.startswith('s:') and len(x) == 3 and x[2] in 'slgSLG'

    # -- chemical selections
    def sel(self, k):
        """('all',) | ('one', pos) | ('grp', name) | ('seq', [...]); None if a name is undefined"""
        if k == E: return ('all',)
        if isinstance(k, str):
            n = k[2:]
            if n in self.names: return ('one', self.names[n])
            if n in self.groups: return ('grp', n)
            return None
        items = [self.sel(i) for i in k[1:]]
        if any(i is None or i[0] in ('all', 'seq') for i in items): return None
        return ('seq', items)

    def positions(self, sel):
        if sel[0] == 'all': return list(range(self.N))
        if sel[0] == 'one': return [sel[1]]
        if sel[0] == 'grp': return list(self.groups[sel[1]][0])
        out = []
        for i in sel[1]: out += self.positions(i)
        return out

    def get(self, vec, sel):
        if sel[0] == 'all': return vec.copy()
        if sel[0] == 'one': return float(vec[sel[1]])
        if sel[0] == 'grp': return float(sum(vec[i] for i in self.groups[sel[1]][0]))
        return np.array([self.get(vec, i) for i in sel[1]], float)

    def set(self, vec, sel, value):
        value = np.asarray(value, float)
        if sel[0] == 'all': vec[:] = value
        elif sel[0] == 'one': vec[sel[1]] = float(value)
        elif sel[0] == 'grp':
            members, comp = self.groups[sel[1]]
            vec[members] = value * comp if value.ndim == 0 else value
        else:
            for n, i in enumerate(sel[1]):
                self.set(vec, i, value if value.ndim == 0 else value[n])

    def width(self, sel):
        """length of the 1-d value that addresses the selection item by item (None: scalar only)"""
        if sel[0] == 'all': return self.N
        if sel[0] == 'one': return None
        if sel[0] == 'grp': return len(self.groups[sel[1]][0])
        return len(sel[1])

    # -- full key resolution for the two indexers
    def resolve(self, target, k):
        """returns (form, rowspec, sel) ; rowspec: None (single-phase data) | 'sum' | int row | 'each'
        or ('undefined', what)"""
        if target == 'ci':
            sel = self.sel(k)
            if sel is None: return ('undefined', 'chemical')
            return (self.form(None, k, sel), None, sel)
        # multi
        if self.is_phase(k):
            r = self.phase_row(k[2:])
            if r is None: return ('undefined', 'phase')
            return ('phase', r, ('all',))
        if not isinstance(k, str) and k[0] == 'T' and len(k) == 3 and (self.is_phase(k[1]) or (k[1] == E and True)):
            # (phase, key) / (..., key)   -- a 2-tuple of chemical names never starts with a phase letter or the ellipsis
            sel = self.sel(k[2])
            if sel is None: return ('undefined', 'chemical')
            if k[1] == E:
                return (self.form('...', k[2], sel), 'each', sel)
            r = self.phase_row(k[1][2:])
            if r is None: return ('undefined', 'phase')
            return (self.form('p', k[2], sel), r, sel)
        sel = self.sel(k)
        if sel is None: return ('undefined', 'chemical')
        return (self.form(None, k, sel), 'sum', sel)

    def form(self, ph, k, sel):
        if sel[0] == 'all': f = 'ellipsis'
        elif sel[0] == 'one':
            n = k[2:]
            p = sel[1]
            f = 'ID' if n == self.IDs[p] else 'CAS' if n == self.CAS[p] else 'alias'
        elif sel[0] == 'grp': f = 'group'
        else:
            f = ('list' if k[0] == 'L' else 'tuple') + ('+group' if any(i[0] == 'grp' for i in sel[1]) else '')
        return f if ph is None else f'{ph},{f}'


def arr(r):
    if hasattr(r, 'to_array'): return np.asarray(r.to_array(), float)
    return np.asarray(r, float)

def same(a, b):
    """equal shape and equal values; dyadic data compare exactly, the weight-defined group introduces w/MW fractions whose sums may be
    associated differently by the library and by NumPy: 1e-12 relative slack (DESIGN 1.5), no absolute slack"""
    a = arr(a); b = np.asarray(b, float)
    return same_data(a, b)

def same_data(a, b):
    if a.shape != b.shape: return False
    if (a == b).all(): return True                     # the common (dyadic) case, cheap
    return bool(np.allclose(a, b, rtol=1e-12, atol=0.0))

DOCUMENTED = ('UndefinedChemicalAlias', 'UndefinedPhase')

def is_documented(e):
    n = type(e).__name__
    if n in DOCUMENTED: return True
    if isinstance(e, IndexError) and 'multiple phases present' in str(e): return True
    if isinstance(e, IndexError) and 'cannot set an array element with a sequence' in str(e): return True
    if isinstance(e, ValueError) and 'already in use' in str(e): return True
    return False


class St:
    pass


class C10(System):
    nontrivial_per_config = True

    def __init__(self, name, layer, depth_q, depth_t, tcap_q=None, tcap_t=None, one_config=False):
        self.name = name
        self.one_config = one_config
        self.layer = layer
        self._dq, self._dt = depth_q, depth_t
        self._tq, self._tt = tcap_q, tcap_t
        self._pk = {}
        self._tier = 'quick'

    def warm(self):
        _chems()
        fixtures.tmo()

    def depth(self, tier): return self._dq if tier == 'quick' else self._dt
    def time_cap(self, tier):
        import os
        if os.environ.get('VERIF_C10_CAP'): return float(os.environ['VERIF_C10_CAP'])      # development aid: measure without the caps
        return self._tq if tier == 'quick' else self._tt
    def reset_globals(self):
        fixtures.reset_globals()

    def describe(self, tier):
        return dict(layer=self.layer)

    # ---- configurations ----------------------------------------------------------------------------------------
    def configs(self, tier, seed):
        self._tier = tier
        if self.layer == 'keys':
            phase_sets = [('g', 'l'), ('L', 'l', 's')] if tier == 'quick' else [('g', 'l'), ('L', 'l', 's'), ('l',), ('S', 'g', 'l', 's')]
            cfgs = [(n, ps, 'mol') for n in range(1, 9) for ps in phase_sets]
            cfgs += [(n, ('g', 'l'), 'mass') for n in ((2, 4) if tier == 'quick' else (1, 2, 3, 4, 6, 8))]
        elif self.layer in ('history', 'wide'):
            cfgs = [(3, ('g', 'l'), 'mol')]
            if tier != 'quick': cfgs += [(4, ('L', 'l', 's'), 'mol'), (1, ('g', 'l'), 'mol')]
            else: cfgs += [((4, ('L', 'l', 's'), 'mol'), (1, ('g', 'l'), 'mol'), (2, ('g', 'l'), 'mol'))[seed % 3]]
        else:
            cfgs = [(2, ('g', 'l'), 'mol'), (5, ('g', 'l'), 'mol')]
            if tier != 'quick': cfgs += [(1, ('l', 's'), 'mol'), (8, ('g', 'l'), 'mol')]
        if self.one_config: cfgs = cfgs[:1] if tier == 'quick' else cfgs[:2]      # thorough: 3 chemicals (g,l) and 4 chemicals (L,l,s)
        k = seed % len(cfgs)
        return cfgs[k:] + cfgs[:k]

    # ---- package description for a config -------------------------------------------------------------------------
    @staticmethod
    def _order(n):
        # positional order deliberately not alphabetical / not the pool order
        return tuple(reversed(range(n))) if n % 2 == 0 else tuple(range(n))

    @staticmethod
    def _groups(n):
        # members deliberately NOT in package order, compositions non-uniform, no member twice.  G1 is given by mol (dyadic),
        # G2 BY WEIGHT (define_group(..., wt=True)): its molar split is w_i / MW_i normalised, evaluated by the model
        if n == 1: return {'G1': ((0,), (1.0,)), 'G2': ((0,), (1.0,), True)}
        if n == 2: return {'G1': ((1, 0), (0.25, 0.75)), 'G2': ((0, 1), (0.5, 0.5), True)}
        if n == 3: return {'G1': ((2, 0), (0.25, 0.75)), 'G2': ((1, 2, 0), (0.5, 0.25, 0.25), True)}
        if n == 4: return {'G1': ((3, 0), (0.25, 0.75)), 'G2': ((2, 1), (0.75, 0.25), True)}
        return {'G1': ((n - 1, 0), (0.25, 0.75)), 'G2': ((2, n - 2, 1), (0.5, 0.25, 0.25), True)}

    @staticmethod
    def _twin_groups(n):
        """G1 of the twin package (same IDs, separately compiled): other members / other order than the main package's G1"""
        if n == 1: return {'G1': ((0,), (1.0,))}
        if n == 2: return {'G1': ((0, 1), (0.25, 0.75))}
        return {'G1': ((1, 0), (0.25, 0.75))}

    def build(self, config):
        n, phases, basis = config
        t = fixtures.tmo()
        order = self._order(n)
        m = Model(order, phases, mass=(basis == 'mass'))
        st = St()
        st.config = config
        st.m = m
        groups = self._groups(n)
        st.pending_groups = {}
        aliases = [['a_' + ID] for ID in m.IDs]
        if self.layer in ('history', 'wide'):
            st.pending_groups = {'G2': groups.pop('G2')}
        for p, al in enumerate(aliases):
            for a in al: m.add_alias(p, a)
        for g, spec in groups.items(): m.add_group(g, *spec)
        st.broken = None
        try:
            st.cs = make_package(order, aliases, groups)
        except Exception as e:
            import traceback as _tb
            fr = [f for f in _tb.extract_tb(e.__traceback__) if 'thermosteam' in f.filename]
            st.broken = Violation('unexpected-exception', f'building the package (compile / set_alias / define_group with members {groups!r}) raised '
                                  f'{type(e).__name__}: {e}', match=dict(op='build', exc=type(e).__name__, where=(fr[-1].name if fr else 'outside')))
            return st
        if basis == 'mass':
            CI, MI = t.indexer.ChemicalMassFlowIndexer, t.indexer.MassFlowIndexer
        else:
            CI, MI = t.indexer.ChemicalMolarFlowIndexer, t.indexer.MolarFlowIndexer
        st.CI, st.MI = CI, MI
        st.ci = CI.blank('l', st.cs)
        st.mi = MI.blank(m.phases, st.cs)
        # initial data (positional assignment, not through the code under test)
        for i in range(n):
            v = VALS[i % len(VALS)]
            m.d[i] = v
            if v: st.ci.data.dct[i] = v
            for r in range(len(m.phases)):
                w = VALS[(i + 3 * r + 1) % len(VALS)]
                m.D[r, i] = w
                if w: st.mi.data.rows[r].dct[i] = w
        # a second multi-phase indexer with ANOTHER phase set on the same package (read only): the per-(phases, chemicals) caches
        # of the two must not leak into each other
        import copy as _copy
        ph2 = ('l', 's') if m.phases != ('l', 's') else ('g', 'l')
        m2 = _copy.copy(m); m2.phases = ph2; m2.D = np.zeros((len(ph2), n))
        st.m2 = m2
        st.mi2 = MI.blank(ph2, st.cs)
        for i in range(n):
            for r in range(len(ph2)):
                w = VALS[(i + 5 * r + 2) % len(VALS)]
                m2.D[r, i] = w
                if w: st.mi2.data.rows[r].dct[i] = w
        # partner package for the cross-package ("overlap") operations: the first <=3 chemicals, reversed, no aliases
        k = min(n, 3)
        st.o_order = tuple(reversed(order[:k]))
        st.o_pos = tuple(reversed(range(k)))          # position in the main package of partner chemical j
        st.ocs = None; st.oci = None; st.mo = None
        st.info = {}
        st.next_alias = 0
        # twin package: the SAME IDs in the same order, separately compiled, G1 and the user aliases mean other positions;
        # built lazily by the first action on 'mi3' (a multi-phase indexer with the same phase set as 'mi')
        st.tcs = None; st.mi3 = None; st.m3 = None
        return st

    def _twin(self, st):
        if st.tcs is None:
            m = st.m; n = m.N
            m3 = Model(m.order, m.phases, mass=m.mass)
            al = [['a_' + m.IDs[(p + 1) % n]] for p in range(n)]          # alias of the NEXT chemical
            for p, names in enumerate(al):
                for a in names: m3.add_alias(p, a)
            tg = self._twin_groups(n)
            for g, spec in tg.items(): m3.add_group(g, *spec)
            st.tcs = make_package(m.order, al, tg)
            st.mi3 = st.MI.blank(m.phases, st.tcs)
            for i in range(n):
                for r in range(len(m.phases)):
                    w = VALS[(i + 2 * r + 5) % len(VALS)]
                    m3.D[r, i] = w
                    if w: st.mi3.data.rows[r].dct[i] = w
            st.m3 = m3
        return st.mi3

    def _partner(self, st):
        """the partner package (re-ordered subset, no aliases) and ONE persistent single-phase indexer on it: the source of the
        cross-package operations, itself looked up with CAS tuples before and after them"""
        if st.ocs is None:
            st.ocs = make_package(st.o_order, [[] for _ in st.o_order], {})
            st.oci = st.CI.blank('l', st.ocs)
            mo = Model(st.o_order, ('l',), mass=st.m.mass)
            for j, x in enumerate(self._partner_vals(st)):
                mo.d[j] = x
                if x: st.oci.data.dct[j] = x
            st.mo = mo
        return st.ocs

    # ---- key alphabets -----------------------------------------------------------------------------------------------
    def _chem_keys(self, m, full):
        """encoded chemical keys (no phase). `full`: the depth-1 enumeration."""
        N = m.N
        nm = lambda p, kind: s((m.IDs[p], m.CAS[p], m.aliases[p][0])[kind % 3])
        keys = []
        for p in range(N):
            for kind in range(3): keys.append(nm(p, kind))
        for g in m.groups: keys.append(s(g))
        keys.append(E)
        pairs = [(a, b) for a in range(N) for b in range(N) if a != b]
        if not full: pairs = pairs[:2]
        for j, (a, b) in enumerate(pairs):
            keys.append(T(nm(a, j), nm(b, j + 1)))
            if j % 2 == 0 or not full: keys.append(L(nm(b, j + 2), nm(a, j)))
        if full:
            for p in range(N): keys.append(T(nm(p, p)))          # 1-tuples
            if N >= 3:
                for perm in itertools.permutations(range(3)):
                    keys.append(T(*[nm(p, p + perm[0]) for p in perm]))
            if N >= 2:
                keys.append(T(*[s(m.IDs[p]) for p in range(N)]))
                keys.append(L(*[s(m.CAS[p]) for p in reversed(range(N))]))
                keys.append(T(s(m.IDs[0]), s(m.IDs[0])))            # repeated: read only
        # group mixtures
        gs = list(m.groups)
        for g in gs:
            mem = m.groups[g][0]
            outside = [p for p in range(N) if p not in mem]
            keys.append(T(s(g)))
            if outside:
                keys.append(T(nm(outside[0], 0), s(g)))
                keys.append(L(s(g), nm(outside[-1], 1)))
            if full and mem:
                keys.append(T(s(g), nm(mem[0], 2)))                 # overlapping: read only
        if len(gs) == 2:
            keys.append(T(s(gs[0]), s(gs[1])))
            if full: keys.append(T(s(gs[1]), nm(0, 0), s(gs[0])))
        out = []
        for k in keys:
            if k not in out: out.append(k)
        return out

    def _values(self, m, sel, rows):
        """value forms for a write through selection `sel` ('each' rows: 2-d / per phase)"""
        vals = [('sc', 2.5), ('sc', 0.0)]
        w = m.width(sel)
        pos = m.positions(sel)
        if len(set(pos)) != len(pos): return []
        if w is not None:
            base = [0.5, 0.0, 2.0, 0.25, 4.0, 0.0, 1.5, 8.0]
            if rows == 'each':
                if sel[0] in ('grp',): return vals          # data*composition with 2-d data: not a documented form
                if sel[0] == 'seq' and any(i[0] == 'grp' for i in sel[1]): return vals + [('ar', tuple(base[:w]))]
                P = len(m.phases)
                vals.append(('ar2', tuple(tuple(base[(i + r) % 8] for i in range(w)) for r in range(P))))
            else:
                vals.append(('ar', tuple(base[:w])))
        elif rows == 'each':
            vals.append(('ar', tuple([0.5, 0.0, 2.0, 0.25][:len(m.phases)])))
        return vals

    # ---- actions ----------------------------------------------------------------------------------------------------
    def actions(self, st):
        m = st.m
        if self.layer == 'keys':
            acts = []
            ck = self._chem_keys(m, True)
            for k in ck:
                sel = m.sel(k)
                acts.append(('get', 'ci', k))
                for v in self._values(m, sel, None): acts.append(('set', 'ci', k, v))
            mk = []
            for k in ck:
                mk.append(k)
            phs = list(m.phases) + [p.swapcase() for p in m.phases if p.swapcase() not in m.phases] + ['g' if 'g' not in m.phases and 'G' not in m.phases else 's']
            seenp = []
            for p in phs:
                if p not in seenp: seenp.append(p)
            for p in seenp: mk.append(s(p))
            sub = ck if (self._tier != 'quick' or m.N <= 4) else [k for j, k in enumerate(ck) if j % 3 == m.N % 3 or isinstance(k, str)]
            for p in seenp[:len(m.phases) + 1] + [E]:
                for k in sub:
                    mk.append(T(s(p) if p != E else E, k))
            for k in mk:
                acts.append(('get', 'mi', k))
                r = m.resolve('mi', k)
                if r[0] == 'undefined':
                    acts.append(('set', 'mi', k, ('sc', 2.5)))
                    continue
                for v in self._values(m, r[2], r[1]):
                    acts.append(('set', 'mi', k, v))
            return acts
        if self.layer in ('history', 'wide'):
            return self._history_actions(st)
        return self._evict_actions(st)

    def _ov_cas_key(self, st):
        """the CAS tuple that a cross-package operation with the partner writes into the main package's cache"""
        m = st.m
        nz = [j for j in range(len(st.o_order)) if self._partner_vals(st)[j]]
        return T(*[s(m.CAS[st.o_pos[j]]) for j in nz])

    def _partner_vals(self, st):
        return [1.0, 0.0, 2.5][:len(st.o_order)] if len(st.o_order) == 3 else [1.0, 2.5][:len(st.o_order)]

    def _history_actions(self, st):
        """reduced alphabet (layer 'history', ~26 actions) is a subset of the wide one (layer 'wide', ~40 actions)"""
        m = st.m
        N = m.N
        wide = self.layer == 'wide'
        cas_t = self._ov_cas_key(st)
        a = []
        i0 = s(m.IDs[0]); a1 = s(m.aliases[min(1, N - 1)][0]); c0 = s(m.CAS[0])
        out = [p for p in range(N) if p not in m.groups['G1'][0]]
        mixk = T(s(m.IDs[out[0]]), s('G1')) if out else T(s('G1'))
        lk = L(s(m.IDs[min(1, N - 1)]), c0) if N > 1 else L(c0)
        p0 = m.phases[-1] if m.phases[-1] != 's' else m.phases[-2]      # 'l'
        P0 = p0.swapcase() if p0.swapcase() not in m.phases else p0
        nar = len(cas_t) - 1
        for k in (i0, cas_t, s('G1'), mixk) + ((a1, lk, E) if wide else ()):
            a.append(('get', 'ci', k))
        for k in (a1, cas_t) + ((i0, s('G1'), mixk, lk, E) if wide else ()):
            a.append(('get', 'mi', k))
        for k in (s(p0), T(s(p0), s('G1')), T(s(P0), mixk), T(E, a1), T(s(p0), E), T(s(p0), cas_t)) + ((T(s(m.phases[0]), c0), T(E, cas_t)) if wide else ()):
            a.append(('get', 'mi', k))
        a.append(('get', 'mi2', T(s('l'), mixk)))
        a.append(('get', 'oci', cas_t))          # the CAS tuple of the source's non-zero chemicals, looked up on the SOURCE package
        # the twin package (same IDs, G1 / aliases defined differently): same keys as on 'mi'
        a.append(('get', 'mi3', T(s(p0), s('G1')))); a.append(('get', 'mi3', a1)); a.append(('set', 'mi3', T(s(p0), s('G1')), ('sc', 2.5)))
        if wide:
            a.append(('get', 'mi3', s('G1'))); a.append(('get', 'mi3', T(E, a1))); a.append(('get', 'mi3', T(s(P0), mixk)))
        if wide:
            a.append(('get', 'mi2', s('l'))); a.append(('get', 'mi2', T(s(st.m2.phases[-1]), a1)))
        a.append(('set', 'ci', cas_t, ('ar', tuple([0.5, 0.0, 2.0][:nar]))))
        a.append(('set', 'ci', s('G1'), ('sc', 2.5)))
        a.append(('set', 'mi', T(s(p0), mixk), ('sc', 2.5)))
        a.append(('set', 'mi', T(E, i0), ('sc', 2.5)))
        if wide:
            a.append(('set', 'ci', mixk, ('sc', 0.0)))
            a.append(('set', 'mi', T(s(m.phases[0]), c0), ('sc', 0.0)))
            a.append(('set', 'mi', T(s(p0), cas_t), ('ar', tuple([0.5, 0.0, 2.0][:nar]))))
        for op, tgt in (('mix', 'ci'), ('sep', 'ci'), ('copy', 'mi')) + ((('copy', 'ci'), ('mix', 'mi')) if wide else ()):
            a.append(('ov', op, tgt))
        a.append(('flood', 'ci', 101)); a.append(('flood', 'mi', 101)); a.append(('flood', 'mi', 501))
        if st.next_alias < (2 if wide else 1):
            a.append(('alias', N - 1, f'n{st.next_alias}'))
        a.append(('alias_conflict', 0, m.aliases[N - 1][0] if N > 1 else 'G1'))
        if 'G2' in st.pending_groups: a.append(('group', 'G2'))
        else:
            a.append(('get', 'ci', s('G2'))); a.append(('get', 'mi', T(s(p0), T(s('G2')))))
            if wide: a.append(('set', 'mi', T(s(p0), s('G2')), ('sc', 4.0)))
        if st.next_alias > 0:
            a.append(('get', 'ci', s('n0')))
            if wide: a.append(('get', 'mi', T(E, T(s('n0')))))
        return a

    def _evict_actions(self, st):
        m = st.m
        N = m.N
        cas_t = self._ov_cas_key(st)
        i0 = s(m.IDs[0])
        outside = [p for p in range(N) if p not in m.groups['G2'][0]]
        g2k = T(s(m.aliases[outside[0]][0]), s('G2')) if outside else T(s('G2'))
        p0 = 'l'
        a = []
        sizes = (101, 501) if self._tier == 'quick' else (101, 501, 2000)
        for tgt in ('ci', 'mi'):
            for n in sizes: a.append(('flood', tgt, n))
        a.append(('flood', 'mip', 501))                      # (phase, key) look-ups: only the per-(phases, chemicals) cache
        for tgt in ('ci', 'mi'):
            for k in (i0, s('G1'), g2k, cas_t, E):
                a.append(('get', tgt, k))
        for k in (s(p0), T(s(p0), s('G2')), T(s(p0), cas_t), T(E, i0)):
            a.append(('get', 'mi', k))
        a.append(('get', 'mi2', T(s('l'), g2k))); a.append(('get', 'mi2', s('l')))
        a.append(('get', 'mi3', T(s(p0), s('G1')))); a.append(('get', 'mi3', s('G1')))
        a.append(('get', 'oci', cas_t))
        a.append(('set', 'ci', s('G1'), ('sc', 2.5)))
        a.append(('set', 'mi', T(s(p0), g2k), ('sc', 2.5)))
        a.append(('ov', 'mix', 'ci')); a.append(('ov', 'mix', 'mi'))
        return a

    # ---- one real operation + its exception classification ----------------------------------------------------------------
    @staticmethod
    def _value(v):
        kind, x = v
        if kind == 'sc': return x
        return np.array(x, float)

    def _do(self, ix, op, key, v=None):
        """returns ('ok', result) or ('exc', exception)"""
        try:
            if op == 'get': return ('ok', ix[key])
            ix[key] = self._value(v)
            return ('ok', None)
        except Exception as e:
            return ('exc', e)

    def _fresh(self, st):
        """freshly built package + indexers with the same name table and the same data"""
        m = st.m
        groups = {g: self._groups(m.N)[g] for g in m.groups}
        # The comparison package is pooled per name table to save the 1.3 ms of a build, but NOTHING mutable survives a use: the
        # name table, the stored group compositions (arrays the library could scale in place), the look-up caches and every
        # MaterialIndexer cache of this package are restored from the pristine snapshot taken when it was built.
        sig = (m.order, tuple(tuple(x) for x in m.aliases), tuple(sorted(groups.items())))
        ent = self._pk.get(sig)
        if ent is None:
            if len(self._pk) > 64: self._pk.clear()
            cs = make_package(m.order, m.aliases, groups)
            snap = (dict((k, list(v) if isinstance(v, list) else v) for k, v in cs._index.items()),
                    {k: v.copy() for k, v in cs._group_mol_compositions.items()},
                    {k: v.copy() for k, v in cs._group_wt_compositions.items()})
            ent = self._pk[sig] = (cs, snap)
        cs, snap = ent
        cs._index.clear(); cs._index.update((k, list(v) if isinstance(v, list) else v) for k, v in snap[0].items())
        cs._group_mol_compositions.clear(); cs._group_mol_compositions.update((k, v.copy()) for k, v in snap[1].items())
        cs._group_wt_compositions.clear(); cs._group_wt_compositions.update((k, v.copy()) for k, v in snap[2].items())
        cs._index_cache.clear()
        caches = fixtures.tmo().indexer.MaterialIndexer._index_caches
        for k in [k for k in caches if k[1] is cs]: del caches[k]
        ci = st.CI.blank('l', cs); mi = st.MI.blank(m.phases, cs)
        for i in range(m.N):
            if m.d[i]: ci.data.dct[i] = float(m.d[i])
            for r in range(len(m.phases)):
                if m.D[r, i]: mi.data.rows[r].dct[i] = float(m.D[r, i])
        return cs, ci, mi

    def _gcomp(self, st, g):
        return self._groups(st.m.N)[g][1]

    def step(self, st, a):
        try:
            return self._step(st, a)
        except (Violation, Rejected):
            raise
        except Exception as e:
            # an exception that escapes from library code called by the harness itself (twin / partner / fresh package
            # construction) is library misbehaviour on a valid input, not a harness error
            import traceback as _tb
            fr = [f for f in _tb.extract_tb(e.__traceback__) if 'thermosteam' in f.filename]
            if not fr: raise
            raise Violation('unexpected-exception', f'{a!r}: library code called while preparing the operation raised {type(e).__name__}: {e} in {fr[-1].name}',
                            match=dict(op='prepare', exc=type(e).__name__, where=fr[-1].name))

    def _step(self, st, a):
        m = st.m
        op = a[0]
        st.info = info = dict(op=op, hit=False, evicted=False, wrote_cas=False, changed=False, touched_nonzero=False)
        if op in ('get', 'set'):
            return self._step_access(st, a)
        if op == 'flood':
            return self._step_flood(st, a)
        if op == 'ov':
            return self._step_overlap(st, a)
        if op == 'alias':
            _, pos, name = a
            try: st.cs.set_alias(m.IDs[pos], name)
            except Exception as e:
                raise Violation('unexpected-exception', f'set_alias({m.IDs[pos]!r}, {name!r}) raised {type(e).__name__}: {e}',
                                match=dict(op='set_alias', exc=type(e).__name__))
            m.add_alias(pos, name); st.next_alias += 1
            return ('ok',)
        if op == 'alias_conflict':
            _, pos, name = a
            before = dict(st.cs._index)
            try: st.cs.set_alias(m.IDs[pos], name)
            except ValueError as e:
                if dict(st.cs._index) != before:
                    raise Violation('rejected-but-changed', 'set_alias raised ValueError but changed the name table', match=dict(op='set_alias'))
                if name in st.cs.tuple[pos].aliases:
                    raise Violation('rejected-but-changed', 'set_alias raised ValueError but added the alias to the chemical', match=dict(op='set_alias'))
                raise Rejected('set_alias:claimed', cut=False)
            raise Violation('alias-claimed-twice', f'set_alias({m.IDs[pos]!r}, {name!r}) accepted a name that belongs to another chemical/group',
                            match=dict(op='set_alias'))
        if op == 'group':
            g = a[1]
            spec = st.pending_groups.pop(g)
            mem, comp = spec[0], spec[1]
            try: st.cs.define_group(g, [m.IDs[i] for i in mem], list(comp), wt=bool(len(spec) > 2 and spec[2]))
            except Exception as e:
                raise Violation('unexpected-exception', f'define_group raised {type(e).__name__}: {e}', match=dict(op='define_group', exc=type(e).__name__))
            m.add_group(g, *spec)
            return ('ok',)
        raise ValueError(a)

    def _caches(self, st):
        return st.cs._index_cache, st.mi._index_cache

    def _step_access(self, st, a):
        m = st.m; info = st.info
        op, tgt, k = a[0], a[1], a[2]
        v = a[3] if op == 'set' else None
        key = dec(k)
        if tgt == 'mi2': m = st.m2
        if tgt == 'mi3': self._twin(st); m = st.m3
        if tgt == 'oci': self._partner(st); m = st.mo
        ix = st.ci if tgt == 'ci' else st.mi if tgt == 'mi' else st.mi2 if tgt == 'mi2' else st.mi3 if tgt == 'mi3' else st.oci
        res = m.resolve('ci' if tgt in ('ci', 'oci') else 'mi', k)
        form = res[0] if res[0] != 'undefined' else 'undefined-' + res[1]
        c1, c2 = self._caches(st)
        hkey = self._hashable(key)
        info['hit'] = (hkey in c2) if tgt == 'mi' else (hkey in st.mi2._index_cache) if tgt == 'mi2' else (hkey in st.mi3._index_cache) if tgt == 'mi3' else (hkey in st.ocs._index_cache) if tgt == 'oci' else (hkey in c1)
        n1, n2 = len(c1), len(c2)
        first1 = next(iter(c1), None)
        match = dict(op=op, target=tgt, form=form, value=(v[0] if v else None))
        # differential twin on cold caches, only meaningful after a history
        fresh = None
        if self.layer != 'keys' and tgt not in ('mi3', 'oci'):
            fcs, fci, fmi = self._fresh(st)
            if tgt == 'mi2':
                fmi = st.MI.blank(m.phases, fcs)
                for i in range(m.N):
                    for r in range(len(m.phases)):
                        if m.D[r, i]: fmi.data.rows[r].dct[i] = float(m.D[r, i])
            fresh = self._do(fci if tgt == 'ci' else fmi, op, dec(k), v)
        real = self._do(ix, op, key, v)
        info['evicted'] = (len(c1) <= n1 and first1 is not None and first1 not in c1)
        # -- exceptions
        if real[0] == 'exc':
            e = real[1]
            en = type(e).__name__
            if fresh is not None and fresh[0] == 'ok':
                raise Violation('history-dependent-exception',
                                f'{op} {tgt}[{key!r}] raised {en}: {e} after this history, a freshly built indexer with the same data accepts it',
                                match=dict(match, exc=en), detail=dict(key=repr(key)))
            if fresh is not None and type(fresh[1]).__name__ != en:
                raise Violation('history-dependent-exception',
                                f'{op} {tgt}[{key!r}] raised {en}, a freshly built indexer raises {type(fresh[1]).__name__}',
                                match=dict(match, exc=en))
            expected_reject = (res[0] == 'undefined') or (op == 'set' and tgt != 'ci' and res[1] == 'sum')
            if is_documented(e) and expected_reject:
                self._check_unchanged(st, match)
                raise Rejected(f'{op}:{en}', cut=False)
            raise Violation('unexpected-exception', f'{op} {tgt}[{key!r}]{"" if v is None else " = " + repr(v[1])} raised {en}: {e}',
                            match=dict(match, exc=en), detail=dict(key=repr(key)))
        if fresh is not None and fresh[0] == 'exc':
            raise Violation('history-dependent-exception',
                            f'{op} {tgt}[{key!r}] succeeded after this history but a freshly built indexer raises {type(fresh[1]).__name__}: {fresh[1]}',
                            match=dict(match, exc=type(fresh[1]).__name__))
        if res[0] == 'undefined':
            raise Violation('undefined-key-accepted', f'{op} {tgt}[{key!r}] returned normally although the {res[1]} is undefined', match=match)
        if op == 'set' and tgt == 'mi' and res[1] == 'sum':
            raise Violation('ambiguous-write-accepted', f'set mi[{key!r}] without a phase returned normally', match=match)
        # -- values
        _, rows, sel = res
        vec = m.d if tgt in ('ci', 'oci') else m.D
        if op == 'set' and tgt in ('mi2', 'oci'): raise ValueError('mi2 is read only in this harness')
        if op == 'get':
            exp = self._expected_get(m, vec, rows, sel)
            got = real[1]
            info['touched_nonzero'] = bool(np.any(np.asarray(exp)))
            if not same(got, exp):
                raise Violation('get-value', f'get {tgt}[{key!r}] returned {arr(got).tolist()!r}, the data hold {np.asarray(exp).tolist()!r} at those positions',
                                match=match, detail=dict(key=repr(key), cache_hit=info['hit']))
            if fresh is not None and not same(got, arr(fresh[1])):
                raise Violation('history-dependent-value', f'get {tgt}[{key!r}] returned {arr(got).tolist()!r}, a freshly built indexer returns {arr(fresh[1]).tolist()!r}',
                                match=match)
            self._check_unchanged(st, match)
            return ('get', form, np.asarray(exp).tolist())
        # set
        before = vec.copy()
        val = self._value(v)
        self._model_set(m, vec, rows, sel, val)
        info['changed'] = not np.array_equal(before, vec)
        self._check_unchanged(st, match, clause='set-entries',
                              what=f'set {tgt}[{key!r}] = {v[1]!r}')
        if fresh is not None:
            if not (same_data(arr(fci.data), arr(st.ci.data)) and same_data(arr(fmi.data), arr(st.mi.data))):
                raise Violation('history-dependent-value', f'set {tgt}[{key!r}] = {v[1]!r} left other data than on a freshly built indexer', match=match)
        # read back
        rb = self._do(ix, 'get', key)
        if rb[0] == 'exc':
            raise Violation('unexpected-exception', f'read-back get {tgt}[{key!r}] raised {type(rb[1]).__name__}: {rb[1]}',
                            match=dict(match, op='readback', exc=type(rb[1]).__name__))
        exp = self._expected_get(m, vec, rows, sel)
        if not same(rb[1], exp):
            raise Violation('read-back', f'after set {tgt}[{key!r}] = {v[1]!r} the same key reads {arr(rb[1]).tolist()!r}, expected {np.asarray(exp).tolist()!r}', match=match)
        return ('set', form, info['changed'])

    @staticmethod
    def _hashable(key):
        if isinstance(key, list): return tuple(key)
        if isinstance(key, tuple): return tuple(tuple(i) if isinstance(i, list) else i for i in key)
        return key

    @staticmethod
    def _expected_get(m, vec, rows, sel):
        if rows is None: return m.get(vec, sel)
        if rows == 'sum': return m.get(vec.sum(0), sel)
        if rows == 'each': return np.array([m.get(vec[r], sel) for r in range(vec.shape[0])], float)
        return m.get(vec[rows], sel)

    @staticmethod
    def _model_set(m, vec, rows, sel, val):
        if rows is None: m.set(vec, sel, val)
        elif rows == 'each':
            val = np.asarray(val, float)
            for r in range(vec.shape[0]):
                if val.ndim == 0: m.set(vec[r], sel, val)
                elif val.ndim == 2: m.set(vec[r], sel, val[r])
                elif sel[0] == 'one': m.set(vec[r], sel, val[r])          # one value per phase
                else: m.set(vec[r], sel, val)                              # one value per selected item, every phase
        else: m.set(vec[rows], sel, val)

    def _check_unchanged(self, st, match, clause='data-changed-by-read', what='the look-up'):
        m = st.m
        a = arr(st.ci.data); b = arr(st.mi.data)
        if not same_data(a, m.d):
            raise Violation(clause, f'{what}: single-phase data are {a.tolist()!r}, expected {m.d.tolist()!r}', match=dict(match, data='ci'))
        if not same_data(b, m.D):
            raise Violation(clause, f'{what}: multi-phase data are {b.tolist()!r}, expected {m.D.tolist()!r}', match=dict(match, data='mi'))
        if st.ocs is not None and not same_data(arr(st.oci.data), st.mo.d):
            raise Violation(clause, f'{what}: data of the partner (source) indexer are {arr(st.oci.data).tolist()!r}, expected {st.mo.d.tolist()!r}', match=dict(match, data='oci'))
        if st.mi3 is not None and not same_data(arr(st.mi3.data), st.m3.D):
            raise Violation(clause, f'{what}: data of the indexer on the twin package are {arr(st.mi3.data).tolist()!r}, expected {st.m3.D.tolist()!r}', match=dict(match, data='mi3'))
        if not same_data(arr(st.mi2.data), st.m2.D):
            raise Violation(clause, f'{what}: data of the second multi-phase indexer changed', match=dict(match, data='mi2'))

    # ---- floods --------------------------------------------------------------------------------------------------------
    def _flood_keys(self, st, n, salt):
        m = st.m
        names = []
        for p in range(m.N):
            names += [m.IDs[p], m.CAS[p], m.aliases[p][0]]
        names = names[:9]
        memo = self.__dict__.setdefault('_fk', {})
        if (tuple(names), n) in memo: return memo[tuple(names), n]
        out = memo[tuple(names), n] = []
        L_ = 2 if len(names) > 3 else 3
        while len(out) < n:
            for combo in itertools.product(names, repeat=L_):
                out.append(combo)
                if len(out) >= n: break
            L_ += 1
        return out

    def _step_flood(self, st, a):
        m = st.m; info = st.info
        _, tgt, n = a
        c1, c2 = self._caches(st)
        phase = None
        if tgt == 'mip':
            phase = 'l'; ix = st.mi; vec = m.D[m.phase_row('l')]
        elif tgt == 'mi': ix = st.mi; vec = m.D.sum(0)
        else: ix = st.ci; vec = m.d
        before1 = list(c1)[:1]
        maxlen1 = maxlen2 = 0
        for j, combo in enumerate(self._flood_keys(st, n, tgt)):
            key = combo if phase is None else (phase, combo)
            try:
                got = ix[key]
            except Exception as e:
                en = type(e).__name__
                # the same look-up on a freshly built indexer
                fcs, fci, fmi = self._fresh(st)
                f = self._do(fci if tgt == 'ci' else fmi, 'get', key)
                clause = 'history-dependent-exception' if f[0] == 'ok' else 'unexpected-exception'
                raise Violation(clause, f'look-up number {j + 1} of a flood of {n} distinct valid keys on {tgt} raised {en}: {e} '
                                        f'(cache sizes: chemicals {len(c1)}, per-(phases, chemicals) {len(c2)}); key {key!r}',
                                match=dict(op='flood', target=tgt, exc=en, emsg=str(e)[:32]), detail=dict(n=j + 1, len_chem_cache=len(c1), len_material_cache=len(c2)))
            exp = [vec[m.names[x]] for x in combo]
            if got.tolist() != exp and not same(got, np.array(exp, float)):       # plain reads of stored entries: normally exactly equal
                raise Violation('get-value', f'look-up number {j + 1} of a flood on {tgt}: {key!r} returned {arr(got).tolist()!r}, data hold {exp!r}',
                                match=dict(op='flood', target=tgt, form='tuple'))
            maxlen1 = max(maxlen1, len(c1)); maxlen2 = max(maxlen2, len(c2))
        info['evicted'] = bool(before1) and before1[0] not in c1 or maxlen2 > len(c2)
        info['maxlen'] = (maxlen1, maxlen2)
        if maxlen1 > 101 or maxlen2 > 501:
            raise Violation('cache-bound', f'during a flood the caches held {maxlen1} / {maxlen2} entries (bounds 100 / 500)', match=dict(op='flood', target=tgt))
        self._check_unchanged(st, dict(op='flood', target=tgt))
        return ('flood', tgt, n, len(c1), len(c2))

    # ---- cross-package operations (write CAS-tuple keys through index_overlap) -------------------------------------------------
    def _step_overlap(self, st, a):
        m = st.m; info = st.info
        _, op, tgt = a
        t = fixtures.tmo()
        ocs = self._partner(st)
        vals = self._partner_vals(st)
        oci = st.oci
        add = np.zeros(m.N)
        for j, x in enumerate(vals): add[st.o_pos[j]] = x
        c1, _ = self._caches(st)
        n1 = len(c1)
        ix = st.ci if tgt == 'ci' else st.mi
        row = m.phase_row('l')
        try:
            if op == 'mix':
                ix.mix_from([ix, oci])
                if tgt == 'ci': m.d += add
                else: m.D[row] += add
            elif op == 'copy':
                ix.copy_like(oci)
                if tgt == 'ci': m.d[:] = add
                else: m.D[:] = 0; m.D[row] = add
            elif op == 'sep':
                # make sure the remainder is non-negative: add first (positionally), then separate out
                for j, x in enumerate(vals):
                    if x:
                        p = st.o_pos[j]
                        st.ci.data.dct[p] = st.ci.data.dct.get(p, 0.) + x
                ix.separate_out(oci)
        except Exception as e:
            en = type(e).__name__
            raise Violation('history-dependent-exception' if n1 else 'unexpected-exception',
                            f'cross-package {op} into {tgt} raised {en}: {e}', match=dict(op='ov-' + op, target=tgt, exc=en))
        info['wrote_cas'] = len(c1) > n1 or any(isinstance(v, tuple) and v[1] == 0 and isinstance(v[0], list) for v in c1.values())
        self._check_unchanged(st, dict(op='ov-' + op, target=tgt), clause='overlap-data', what=f'cross-package {op} into {tgt}')
        return ('ov', op, tgt)

    # ---- state oracle ------------------------------------------------------------------------------------------------------------
    def invariants(self, st):
        if st.broken is not None: return [st.broken]
        m = st.m
        out = []
        cs = st.cs
        for name, p in m.names.items():
            try:
                q = cs.index(name)
            except Exception as e:
                out.append(Violation('name-resolution', f'chemicals.index({name!r}) raised {type(e).__name__}: {e}', match=dict(kind='raise'))); continue
            if q != p:
                out.append(Violation('name-resolution', f'{name!r} resolves to position {q!r}, the chemical sits at {p}', match=dict(kind='position')))
            if getattr(cs, name, None) is not cs.tuple[p]:
                out.append(Violation('name-resolution', f'attribute {name!r} is not the chemical at position {p}', match=dict(kind='attribute')))
        for name, q in cs._index.items():
            if isinstance(q, int):
                if not (0 <= q < m.N) or cs.__dict__.get(name) is not cs.tuple[q]:
                    out.append(Violation('name-resolution', f'name table entry {name!r} -> {q} does not name the chemical at that position', match=dict(kind='table')))
            elif name not in m.groups:
                out.append(Violation('name-resolution', f'name table entry {name!r} -> {q!r} is not a group I defined', match=dict(kind='table')))
        for g, (mem, comp) in m.groups.items():
            # membership only: in which order the library stores the positions is its own business, as long as reads sum the
            # members and a scalar write pairs every member with its composition entry (transition oracle)
            if sorted(cs._index.get(g, ())) != sorted(mem):
                out.append(Violation('name-resolution', f'group {g!r} resolves to {cs._index.get(g)!r}, defined as {mem!r}', match=dict(kind='group')))
        c1, c2 = self._caches(st)
        if len(c1) > 101: out.append(Violation('cache-bound', f'CompiledChemicals._index_cache holds {len(c1)} entries (bound 100)', match=dict(cache='chemicals')))
        if len(c2) > 501: out.append(Violation('cache-bound', f'MaterialIndexer cache holds {len(c2)} entries (bound 500)', match=dict(cache='material')))
        for nm, data in (('ci', st.ci.data), ('mi', st.mi.data)):
            rows = data.rows if hasattr(data, 'rows') else [data]
            for r in rows:
                for i, x in r.dct.items():
                    if not x or not (0 <= i < m.N):
                        out.append(Violation('stored-zero', f'{nm} data store entry {i}: {x!r}', match=dict(data=nm)))
        return out

    # ---- digest --------------------------------------------------------------------------------------------------------------------
    def canon(self, st):
        if st.broken is not None: return ('broken', st.config)
        m = st.m
        c1, c2 = self._caches(st)
        oc = None if st.ocs is None else tuple((repr(k), repr(v)) for k, v in st.ocs._index_cache.items())
        return (st.config, tuple(m.d.tolist()), tuple(map(tuple, m.D.tolist())),
                tuple(sorted(m.names.items())), tuple(sorted((g, tuple(mem)) for g, (mem, c) in m.groups.items())),
                fixtures.sparse_digest(st.ci.data), fixtures.sparse_digest(st.mi.data), tuple(st.mi._phases),
                tuple((repr(k), repr(v)) for k, v in c1.items()),
                tuple((repr(k), repr(v)) for k, v in c2.items()), oc, st.next_alias,
                tuple((repr(k), repr(v)) for k, v in st.mi2._index_cache.items()),
                self._comp_digest(st.cs), None if st.tcs is None else self._comp_digest(st.tcs),
                None if st.mi3 is None else (fixtures.sparse_digest(st.mi3.data), tuple((repr(k), repr(v)) for k, v in st.mi3._index_cache.items()),
                                             tuple((repr(k), repr(v)) for k, v in st.tcs._index_cache.items())))

    @staticmethod
    def _comp_digest(cs):
        """the package's stored group compositions (mutable arrays shared by every indexer of the package)"""
        return tuple((g, tuple(fixtures.r12(x) for x in cs._group_mol_compositions[g]), tuple(fixtures.r12(x) for x in cs._group_wt_compositions[g]))
                     for g in sorted(cs._group_mol_compositions))

    def nontrivial(self, st, a, obs):
        i = st.info
        if self.layer == 'keys':
            return bool(i.get('touched_nonzero') or i.get('changed'))
        return bool(i.get('hit') or i.get('evicted') or i.get('wrote_cas'))

    def outcome(self, st, a, obs):
        i = st.info
        if isinstance(obs, tuple) and obs and obs[0] == 'rejected':
            return repr((a[0], a[1] if len(a) > 1 else None, obs))
        if a[0] in ('get', 'set'):
            return repr((a[0], a[1], obs[1], a[3][0] if a[0] == 'set' else None, i.get('hit'), i.get('evicted'), i.get('changed'), i.get('touched_nonzero')))
        if a[0] == 'flood':
            return repr((a[:3], i.get('evicted'), obs[3:]))
        return repr((a, i.get('wrote_cas')))


class C10Struct(System):
    """Histories in which the STRUCTURE around the look-up caches changes: an indexer's phase set grows (mix_from / copy_like adds a phase
    that sorts before the existing ones), a second indexer stays on the old phase set, indexers over phase sets that differ only by letter
    case are created in one execution (module-level PhaseIndexer cache), indexers are copied after their by_mass() view was taken and keys are
    used through the mass views (positional access x MW).  Every indexer's data are compared with their dense images after every step."""
    nontrivial_per_config = True
    KEYCHEM = 0

    def __init__(self, name='c10.struct', depth_q=3, depth_t=4, tcap_q=40, tcap_t=300):
        self.name = name; self._dq, self._dt, self._tq, self._tt = depth_q, depth_t, tcap_q, tcap_t
    def warm(self): _chems(); fixtures.tmo()
    def depth(self, tier): return self._dq if tier == 'quick' else self._dt
    def time_cap(self, tier): return self._tq if tier == 'quick' else self._tt
    def reset_globals(self):
        fixtures.reset_globals()
        import thermosteam._phase as _ph
        _ph.PhaseIndexer._index_cache.clear()            # module-level phase-set -> row map cache: owned per execution, in canon
    def configs(self, tier, seed):
        cfgs = [(3, ('l', 's'))]
        if tier != 'quick': cfgs.append((4, ('L', 's')))
        return cfgs

    # -- models
    def _model(self, st, phases, mass=False):
        n = st.n
        m = Model(C10._order(n), phases, mass=mass)
        for p in range(n): m.add_alias(p, 'a_' + m.IDs[p])
        g = C10._groups(n)['G1']
        m.add_group('G1', *g)
        return m

    def _add(self, st, name, phases, salt, ix=None):
        t = fixtures.tmo()
        m = self._model(st, phases)
        if ix is None:
            ix = t.indexer.MolarFlowIndexer.blank(m.phases, st.cs)
            for i in range(st.n):
                for r in range(len(m.phases)):
                    w = VALS[(i + 3 * r + salt) % len(VALS)]
                    m.D[r, i] = w
                    if w: ix.data.rows[r].dct[i] = w
        st.ix[name] = ix; st.m[name] = m

    def build(self, config):
        n, phases = config
        st = St(); st.config = config; st.n = n; st.info = {}
        order = C10._order(n)
        g1 = C10._groups(n)['G1']
        st.broken = None
        try:
            st.cs = make_package(order, [['a_' + _chems()[i].ID] for i in order], {'G1': g1})
        except Exception as e:
            st.broken = Violation('unexpected-exception', f'building the package raised {type(e).__name__}: {e}', match=dict(op='build', exc=type(e).__name__)); return st
        st.ix = {}; st.m = {}; st.viewed = set()
        self._add(st, 'ma', phases, 1)
        self._add(st, 'mb', phases, 4)
        return st

    # -- actions
    def _keys(self, st, name):
        m = st.m[name]
        ID = s(m.IDs[self.KEYCHEM])
        ks = [T(s(p), ID) for p in m.phases]
        ks.append(T(s(m.phases[-1]), s('G1')))
        ks.append(s(m.phases[0]))
        if name in ('gl', 'Lg'):
            ks += [T(s(q), ID) for q in ('l', 'L') if q not in m.phases]          # other-case fallback
        return ks

    def actions(self, st):
        a = []
        for name in st.ix:
            for k in self._keys(st, name): a.append(('get', name, k))
        for name in ('ma', 'mk'):
            if name in st.ix:
                m = st.m[name]
                a.append(('set', name, T(s(m.phases[-1]), s(m.IDs[self.KEYCHEM])), ('sc', 2.5)))
                a.append(('getm', name, T(s(m.phases[-1]), s(m.IDs[self.KEYCHEM]))))
                a.append(('getm', name, T(s(m.phases[0]), s('G1'))))
                a.append(('setm', name, T(s(m.phases[-1]), s(m.IDs[self.KEYCHEM])), ('sc', 4.0)))
                if name not in st.viewed: a.append(('view', name))
        if 'g' not in st.m['ma'].phases:
            a.append(('grow', 'ma', 'mix')); a.append(('grow', 'ma', 'copy'))
        if 'gl' not in st.ix: a.append(('new', 'gl'))
        if 'Lg' not in st.ix: a.append(('new', 'Lg'))
        if 'mk' not in st.ix: a.append(('copy', 'ma'))
        return a

    # -- one step
    def step(self, st, a):
        op = a[0]
        st.info = dict(op=op)
        t = fixtures.tmo()
        try:
            if op in ('get', 'set'): out = self._access(st, a, mass=False)
            elif op in ('getm', 'setm'): out = self._access(st, a, mass=True)
            elif op == 'view':
                st.ix[a[1]].by_mass(); st.viewed.add(a[1]); out = ('view',)
            elif op == 'copy':
                m0 = st.m['ma']
                ix = st.ix['ma'].copy()
                self._add(st, 'mk', m0.phases, 0, ix=ix)
                st.m['mk'].D[:] = m0.D
                out = ('copy',)
            elif op == 'new':
                self._add(st, a[1], ('g', 'l') if a[1] == 'gl' else ('L', 'g'), 2 if a[1] == 'gl' else 5)
                out = ('new', a[1])
            elif op == 'grow':
                ix = st.ix['ma']; m = st.m['ma']
                gci = t.indexer.ChemicalMolarFlowIndexer.blank('g', st.cs)
                gv = [0.5, 0.0, 2.0, 0.25][:st.n]
                for i, x in enumerate(gv):
                    if x: gci.data.dct[i] = x
                if a[2] == 'mix': ix.mix_from([ix, gci])
                else: ix.copy_like(gci)
                old = {q: (m.D[r].copy() if a[2] == 'mix' else np.zeros(st.n)) for r, q in enumerate(m.phases)}
                old['g'] = np.array(gv, float)
                m.phases = tuple(sorted(old))                 # the row of the new phase goes where the label sorts
                m.D = np.array([old[q] for q in m.phases])
                st.viewed.discard('ma')
                out = ('grow', a[2])
            else: raise ValueError(a)
        except (Violation, Rejected): raise
        except Exception as e:
            import traceback as _tb
            fr = [f for f in _tb.extract_tb(e.__traceback__) if 'thermosteam' in f.filename]
            if not fr: raise
            raise Violation('unexpected-exception', f'{a!r} raised {type(e).__name__}: {e}', match=dict(op=op, exc=type(e).__name__, where=fr[-1].name))
        self._check_all(st, a)
        return out

    def _access(self, st, a, mass):
        op, name, k = a[0], a[1], a[2]
        v = a[3] if len(a) > 3 else None
        m = st.m[name]; ix = st.ix[name]
        key = dec(k)
        res = m.resolve('mi', k)
        match = dict(op=op, target=name, form=res[0], grown=('g' in st.m['ma'].phases and len(st.m['ma'].phases) > 2), phases=''.join(m.phases))
        st.info['hit'] = C10._hashable(key) in ix._index_cache
        if mass:
            ix = ix.by_mass(); st.viewed.add(name)
            mm = self._model(st, m.phases, mass=True)
            MW = np.array(mm.MW)
        if res[0] == 'undefined':
            raise Violation('harness', f'key {key!r} undefined for {name}', match=match)
        _, rows, sel = res
        if op in ('get', 'getm'):
            got = ix[key]
            if mass: exp = C10._expected_get(mm, m.D * MW, rows, sel)
            else: exp = C10._expected_get(m, m.D, rows, sel)
            st.info['touched'] = bool(np.any(np.asarray(exp)))
            if not same(got, exp):
                raise Violation('get-value', f'{"mass view of " if mass else ""}{name}{list(m.phases)}[{key!r}] returned {arr(got).tolist()!r}, the data hold '
                                f'{np.asarray(exp).tolist()!r} at those positions{" (x MW)" if mass else ""}', match=match)
            return (op, res[0])
        val = C10._value(v)
        ix[key] = val
        if mass:
            W = m.D * MW
            C10._model_set(mm, W, rows, sel, val)
            m.D[:] = W / MW
        else:
            C10._model_set(m, m.D, rows, sel, val)
        return (op, res[0])

    def _check_all(self, st, a):
        for name, ix in st.ix.items():
            m = st.m[name]
            if tuple(ix._phases) != tuple(m.phases):
                raise Violation('phase-set', f'after {a!r}: indexer {name} has phases {ix._phases!r}, expected {m.phases!r}', match=dict(op=a[0], target=name))
            d = arr(ix.data)
            if not same_data(d, m.D):
                raise Violation('set-entries' if a[0] in ('set', 'setm') else 'data-changed', f'after {a!r}: data of {name}{list(m.phases)} are {d.tolist()!r}, expected {m.D.tolist()!r}',
                                match=dict(op=a[0], target=a[1] if len(a) > 1 and isinstance(a[1], str) else None, data=name))

    def invariants(self, st):
        if st.broken is not None: return [st.broken]
        out = []
        for name, ix in st.ix.items():
            for r in ix.data.rows:
                for i, x in r.dct.items():
                    if not x or not (0 <= i < st.n): out.append(Violation('stored-zero', f'{name} stores entry {i}: {x!r}', match=dict(data=name)))
        return out

    def canon(self, st):
        if st.broken is not None: return ('broken', st.config)
        import thermosteam._phase as _ph
        ids = {}
        def alias(o): return ids.setdefault(id(o), len(ids))
        per = []
        for name in sorted(st.ix):
            ix = st.ix[name]
            per.append((name, tuple(ix._phases), fixtures.sparse_digest(ix.data), alias(ix._index_cache),
                        tuple((repr(k), repr(v)) for k, v in ix._index_cache.items()), alias(ix._data_cache), tuple(sorted(map(repr, ix._data_cache)))))
        return (st.config, tuple(per), tuple((repr(k), repr(v)) for k, v in st.cs._index_cache.items()),
                tuple(sorted(repr(sorted(k)) if isinstance(k, frozenset) else repr(k) for k in _ph.PhaseIndexer._index_cache)), C10._comp_digest(st.cs))

    def nontrivial(self, st, a, obs):
        return bool(st.info.get('hit')) or a[0] in ('grow', 'copy', 'new', 'setm', 'set')
    def outcome(self, st, a, obs):
        return repr((a[0], a[1], obs, st.info.get('hit'), tuple(sorted((n, tuple(m.phases)) for n, m in st.m.items()))))[:300]


NAME_POOL = ('Water', 'Ethanol', 'DimethylEther', 'Propanol', 'Isopropanol', 'Acetone', 'Propanal', '1-Butanol', '2-Butanol', 'Isobutanol', 'DiethylEther')
_nbase = {}
def _named(ID):
    if ID not in _nbase: _nbase[ID] = fixtures.tmo().Chemical(ID, cache=True)
    return _nbase[ID]


class C10Names(System):
    """Every name the LIBRARY attaches to a chemical (ID, CAS, formula, common name, IUPAC names, aliases), on packages that contain isomers
    sharing a formula (Ethanol / DimethylEther: C2H6O; 1-/2-Propanol: C3H8O; Acetone / Propanal: C3H6O; four C4H10O) and a user alias
    given to two chemicals: a name of exactly one chemical resolves to that chemical's position (read and write, single- and multi-phase),
    a name shared by several chemicals is undefined (UndefinedChemicalAlias) -- it must never silently resolve to one of them."""
    name = 'c10.names'
    nontrivial_per_config = True
    def warm(self):
        for i in NAME_POOL: _named(i)
    def depth(self, tier): return 1
    def reset_globals(self): fixtures.reset_globals()

    def configs(self, tier, seed):
        base = [('Water', 'Ethanol', 'DimethylEther'), ('DimethylEther', 'Water', 'Ethanol'),
                ('Isopropanol', 'Acetone', 'Propanol', 'Propanal'), ('Propanal', 'Propanol', 'Acetone', 'Isopropanol'),
                ('1-Butanol', 'DiethylEther', 'Water', '2-Butanol', 'Isobutanol')]
        if tier != 'quick':
            base += [tuple(p) for p in itertools.permutations(('Ethanol', 'DimethylEther', 'Propanol', 'Isopropanol'))]
            base += [('Isobutanol', '2-Butanol', 'Ethanol', 'DiethylEther', '1-Butanol', 'DimethylEther', 'Propanal', 'Acetone')]
        out = []
        for b in base:
            if b not in out: out.append(b)
        return out

    def _names(self, IDs):
        """my own table: name -> set of positions that carry it"""
        table = {}
        per = []
        for p, ID in enumerate(IDs):
            c = _named(ID)
            iupac = c.iupac_name or ()
            if isinstance(iupac, str): iupac = (iupac,)
            mine = {ID, c.CAS, c.formula, c.common_name, *iupac, 'u_' + ID, 'shared_user_alias' if p < 2 else None}
            mine = {x for x in mine if x}
            per.append(sorted(mine))
            for x in mine: table.setdefault(x, set()).add(p)
        return table, per

    def build(self, config):
        t = fixtures.tmo()
        st = St(); st.config = config; st.info = {}
        IDs = config
        st.table, st.per = self._names(IDs)
        st.broken = None
        try:
            chems = []
            for p, ID in enumerate(IDs):
                c = _named(ID)
                n = c.copy(ID, CAS=c.CAS, _iupac_name=c.iupac_name, _common_name=c.common_name)
                n.aliases.add('u_' + ID)
                if p < 2: n.aliases.add('shared_user_alias')
                chems.append(n)
            cs = t.Chemicals(chems); cs.compile()
        except Exception as e:
            st.broken = Violation('unexpected-exception', f'compiling {IDs!r} raised {type(e).__name__}: {e}', match=dict(op='build', exc=type(e).__name__)); return st
        st.cs = cs
        N = len(IDs)
        st.d = np.array([VALS[(i + 1) % len(VALS)] or 0.375 for i in range(N)])
        st.D = np.array([[VALS[(i + 3 * r + 2) % len(VALS)] or 1.5 for i in range(N)] for r in range(2)])
        st.d = st.d + np.arange(N) * 16.0; st.D = st.D + np.arange(N) * 16.0          # every position holds a distinct value
        st.ci = t.indexer.ChemicalMolarFlowIndexer.blank('l', cs)
        st.mi = t.indexer.MolarFlowIndexer.blank(('g', 'l'), cs)
        for i in range(N):
            st.ci.data.dct[i] = float(st.d[i])
            for r in range(2): st.mi.data.rows[r].dct[i] = float(st.D[r, i])
        return st

    def actions(self, st):
        acts = []
        for name in sorted(st.table):
            for form in ('ci', 'mi-sum', 'mi-l', 'ci-set', 'mi-l-set', 'index'):
                acts.append((form, name))
        return acts

    def step(self, st, a):
        form, name = a
        from thermosteam.exceptions import UndefinedChemicalAlias
        owners = sorted(st.table[name])
        shared = len(owners) > 1
        kind = 'shared' if shared else 'unique'
        st.info = dict(shared=shared)
        match = dict(op=form, name=kind)
        try:
            if form == 'ci': got = st.ci[name]; exp = st.d
            elif form == 'mi-sum': got = st.mi[name]; exp = st.D.sum(0)
            elif form == 'mi-l': got = st.mi['l', name]; exp = st.D[1]
            elif form == 'index': got = st.cs.index(name); exp = None
            elif form == 'ci-set': st.ci[name] = 1024.0; got = None
            else: st.mi['l', name] = 1024.0; got = None
        except UndefinedChemicalAlias:
            if shared: raise Rejected('shared-name:undefined', cut=False)
            raise Violation('name-resolution', f'{name!r} is a name of the chemical at position {owners[0]} ({st.config[owners[0]]}) only, but {form} raises UndefinedChemicalAlias',
                            match=dict(match, kind='unique-undefined'))
        except Exception as e:
            raise Violation('unexpected-exception', f'{form} with name {name!r} raised {type(e).__name__}: {e}', match=dict(match, exc=type(e).__name__))
        if shared:
            raise Violation('name-resolution', f'{name!r} is a name of the chemicals at positions {owners} ({[st.config[i] for i in owners]}) but {form} resolved it '
                            f'{"to " + repr(got) if got is not None else "and wrote through it"} instead of leaving it undefined', match=dict(match, kind='shared-resolves'))
        p = owners[0]
        if form == 'index':
            if got != p: raise Violation('name-resolution', f'chemicals.index({name!r}) = {got}, the chemical sits at {p}', match=dict(match, kind='position'))
        elif got is not None:
            if not (np.ndim(got) == 0 and float(got) == float(exp[p])):
                raise Violation('get-value', f'{form}[{name!r}] returned {got!r}, position {p} holds {exp[p]!r}', match=match)
        else:
            if form == 'ci-set': st.d[p] = 1024.0
            else: st.D[1, p] = 1024.0
        if not (same_data(arr(st.ci.data), st.d) and same_data(arr(st.mi.data), st.D)):
            raise Violation('set-entries' if form.endswith('set') else 'data-changed-by-read', f'after {form} with {name!r} (position {p}): data are {arr(st.ci.data).tolist()!r} / '
                            f'{arr(st.mi.data).tolist()!r}', match=match)
        return (form, kind)

    def invariants(self, st):
        return [st.broken] if st.broken is not None else []
    def canon(self, st):
        if st.broken is not None: return ('broken', st.config)
        return (st.config, tuple(st.d.tolist()), tuple(map(tuple, st.D.tolist())), tuple((repr(k), repr(v)) for k, v in st.cs._index_cache.items()),
                tuple((repr(k), repr(v)) for k, v in st.mi._index_cache.items()))
    def nontrivial(self, st, a, obs): return True
    def outcome(self, st, a, obs): return repr((a[0], obs, st.info.get('shared')))


SYSTEMS = [
    C10('c10.keys', 'keys', 1, 1),
    C10('c10.history', 'history', 3, 3, tcap_q=60, tcap_t=120),
    C10('c10.history4', 'history', 2, 4, tcap_q=20, tcap_t=700, one_config=True),
    C10('c10.wide', 'wide', 2, 3, tcap_q=30, tcap_t=300),
    C10('c10.evict', 'evict', 2, 3, tcap_q=40, tcap_t=260),
    C10Struct(),
    C10Names(),
]
