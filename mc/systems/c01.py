"""
C01 -- mixing, splitting, separating, moving and scaling streams conserves every chemical.

Bounded exhaustive exploration of the REAL `Stream` / `MultiStream` operations in lock-step with a dense, CAS-keyed
reference model (dict CAS -> total molar flow per stream; all flow values are dyadic rationals so every sum, product with a
split fraction and difference is exact in binary floating point and the comparison is exact equality).

  c01.mix       depth 1: receiver kind x energy balance x "receiver is also an inlet" (0/1/2 times) x 0..3 inlet templates
                (single-phase in s/l/g/S/L, multi-phase over (g,l) (l,s) (L,l) with the material in the first / second / both
                rows, package A or the re-ordered sub-package B, flow vectors incl. all-zero)
  c01.split     depth 1: feed kind x outlet kinds (same / other package, single / multi, outlet == feed) x scalar and
                per-chemical split fractions x energy balance
  c01.sepcopy   depth 1: separate_out of every (mixture, part<=mixture) pair; copy_flow(remove=True) over keys x exclude;
                scale / *= / /= / * / / by k
  c01.history   depth 3/4: sequences of those operations on three streams (single on A, multi on A, single on B); the
                chemicals' _index_cache (name look-ups AND index_overlap write to it) is part of the explored state
"""
from __future__ import annotations
import itertools, os, traceback
import numpy as np
from mc.engine import System, Violation, Rejected
from mc import fixtures

PROPERTY = 'C01'
RULE = ('mix/split/sepcopy: one case = (receiver or feed template, flags, tuple of inlet/outlet templates, split or key), enumerated '
        'completely within the stated menus; non-trivial when at least two non-empty operands collide on a chemical (mix), the feed is '
        'non-empty and the split is not 0/1 for every chemical (split), material was actually moved / removed (sepcopy).  history: '
        'BFS over operation sequences; a state is the complete sparse flow data of the three streams, their classes and phases, and '
        'the ORDERED contents of both packages\' _index_cache; non-trivial when the operation changed some flow.')
ASSUMPTIONS = [
    'packages: A = (Water, Ethanol, Methanol), B = (Ethanol, Water); receivers/outlets on B only get material from streams on B (receiver must be a superset)',
    'flow vectors from a fixed dyadic menu incl. all-zero; split fractions {0, 0.25, 1} and per-chemical vectors over {0, 0.5, 1}; scale factors {0, 0.5, 3}, divisors {0.5, 4}',
    'energy_balance=True only with phases l/g at 300-350 K (the property is about material; the energy side is C02)',
    'only per-chemical totals over phases are compared (which phase the material lands in is C12); negative / stored-zero entries are a state invariant',
    'copy_flow: only the moved material is compared (destination entries outside the moved set may be overwritten by the documented "copy" semantics)',
    'n <= 2 inlets: the full menu of the tier (71 / 139 templates; thorough also receivers multi (g,l,s), (L,l), (S,s) and two receivers on the interleaved superset package C); n = 3: quick the 12-template sub-menu, thorough the full ordered product over 139 templates for receivers single-l and multi-gl and over 71 templates for single-g and multi-Lls (c01.mix3.*)',
    'vle=True mixing is not explored here (C03/C04 drive the flash)',
]
TOLERANCES = {'flow_equality': 0.0}

VA = ((0., 0., 0.), (1., 0., 0.), (2.5, 0.375, 0.), (0., 0., 1.), (1., 2.5, 0.375))      # Water, Ethanol, Methanol
VB = ((0., 0.), (1., 0.), (0.375, 2.5), (0., 1.))                                       # Ethanol, Water
# C: a strict superset of A with A's chemicals interleaved in another order (thorough tier: receivers on C, inlets from A, B, C)
C_IDS = ('Methanol', 'Propanol', 'Water', 'Acetone', 'Ethanol')
VC = ((0., 0., 0., 0., 0.), (0.5, 0., 1., 0., 2.5), (0.375, 1., 0., 4., 0.), (1., 2.5, 0.375, 0.5, 2.))
VEC = {'A': VA, 'B': VB, 'C': VC}
QUICK_V = {'A': (0, 2, 4), 'B': (0, 2)}
SINGLE_PHASES = ('s', 'l', 'g', 'S', 'L')
MULTI_SETS = (('g', 'l'), ('l', 's'), ('L', 'l'), ('S', 's'))      # (L,l) / (S,s): twin labels that fold into one row of a receiver with only one of them

_T = {}
def th(pkg): return fixtures.custom_thermo(C_IDS) if pkg == 'C' else fixtures.thermo(pkg)
def sub(p, q):
    """package p's chemicals are a subset of package q's"""
    return p == q or set(cas(p)) <= set(cas(q))
def cas(pkg): return th(pkg).chemicals.CASs


def make(tmpl, T=None):
    """template -> fresh real stream.  ('S', pkg, phase, vi) | ('R', pkg, phase, vi) = the same flows entered in reversed
    order (the insertion order of the sparse dict is hidden state: index_overlap derives its CAS-tuple key from it) |
    ('M', pkg, phases, fill, vi)"""
    t = fixtures.tmo()
    if tmpl[0] in ('S', 'R'):
        _, pkg, phase, vi = tmpl
        s = t.Stream(None, thermo=th(pkg), phase=phase)
        items = [(i, x) for i, x in enumerate(VEC[pkg][vi]) if x]
        for i, x in (items if tmpl[0] == 'S' else reversed(items)): s._imol.data.dct[i] = x
    else:
        _, pkg, phases, fill, vi = tmpl
        s = t.MultiStream(None, thermo=th(pkg), phases=tuple(phases))
        ph = s._imol._phases
        rows = s._imol.data.rows
        v = VEC[pkg][vi]
        first, second = ph.index(phases[0]), ph.index(phases[1])
        if fill in ('first', 'both'):
            for i, x in enumerate(v):
                if x: rows[first].dct[i] = x
        if fill in ('second', 'both'):
            w = v if fill == 'second' else tuple(reversed(v))
            for i, x in enumerate(w):
                if x: rows[second].dct[i] = x
    if T is not None: s._thermal_condition._T = T
    return s


_TT = {}
def tmpl_totals(tmpl):
    """CAS -> total of a template (memoised; callers never modify the dict)"""
    r = _TT.get(tmpl)
    if r is None:
        pkg = tmpl[1]
        v = np.array(VEC[pkg][tmpl[-1]])
        if tmpl[0] == 'M' and tmpl[3] == 'both': v = v + v[::-1]
        r = _TT[tmpl] = {c: float(x) for c, x in zip(cas(pkg), v)}
    return r

_TD = {}
def tmpl_digest(tmpl):
    """full_digest of a freshly made template stream (memoised)"""
    r = _TD.get(tmpl)
    if r is None: r = _TD[tmpl] = full_digest(make(tmpl))
    return r

def totals(s):
    return fixtures.totals_by_cas(s)

def add(a, b, k=1.0):
    out = dict(a)
    for c, x in b.items(): out[c] = out.get(c, 0.) + k * x
    return out

def eq_tot(a, b):
    keys = set(a) | set(b)
    return all(a.get(k, 0.) == b.get(k, 0.) for k in keys)

def cls(tmpl_or_stream, pkg=None):
    if isinstance(tmpl_or_stream, tuple):
        return ('single' if tmpl_or_stream[0] != 'M' else 'multi') + '-' + tmpl_or_stream[1]
    t = fixtures.tmo()
    return ('multi' if isinstance(tmpl_or_stream, t.MultiStream) else 'single') + '-' + pkg


def where(e):
    """innermost thermosteam frame of an exception: 'file.py:function'"""
    tb = traceback.extract_tb(e.__traceback__)
    for fr in reversed(tb):
        if 'thermosteam' in fr.filename:
            return f'{os.path.basename(fr.filename)}:{fr.name}'
    return 'outside'


def rep_invariant(s, name):
    out = []
    data = s._imol.data
    rows = data.rows if hasattr(data, 'rows') else [data]
    for r in rows:
        for i, x in r.dct.items():
            if not (x > 0):
                out.append(Violation('stored-zero-or-negative', f'{name}: flow entry {i} is stored as {x!r}', match=dict(kind='zero' if x == 0 else 'negative')))
            if not (0 <= i < r.size):
                out.append(Violation('stored-zero-or-negative', f'{name}: flow entry key {i} outside range({r.size})', match=dict(kind='key')))
    return out


def full_digest(s):
    """class, package, phase(s) and the complete sparse flow data INCLUDING the insertion order of every row's dict (a stored zero or
    a negative entry is visible; the order is hidden state that index_overlap reads)"""
    imol = s._imol
    data = imol.data
    rows = data.rows if hasattr(data, 'rows') else (data,)
    ph = ('M', imol._phases) if hasattr(imol, '_phases') else ('S', imol._phase._phase)
    return (s.__class__.__name__, s.chemicals.IDs, ph, tuple([(r.size, tuple(r.dct.items())) for r in rows]))


def cache_digest(pkg):
    return tuple((repr(k), repr(v)) for k, v in th(pkg).chemicals._index_cache.items())


class St:
    pass


# ==================================================================================================================
# layer 1a: mixing

def menu(level):
    """inlet templates; level 'mini' < 'mid' < 'quick' < 'full' (each a subset of the next)"""
    out = []
    if level == 'mini':
        return [('S', 'A', 'l', 4), ('S', 'A', 'g', 2), ('S', 'B', 'l', 2), ('S', 'B', 's', 2), ('S', 'A', 'L', 0), ('S', 'A', 'S', 4),
                ('M', 'A', ('g', 'l'), 'both', 4), ('M', 'B', ('g', 'l'), 'first', 2), ('M', 'B', ('l', 's'), 'both', 2),
                ('M', 'A', ('L', 'l'), 'second', 2), ('M', 'A', ('g', 'l'), 'first', 0), ('S', 'B', 'g', 0)]
    if level == 'mid':
        q = menu('quick'); mini = menu('mini')
        return mini + [t for j, t in enumerate(q) if t not in mini and j % 4 == 1][:12]
    out += [('R', 'B', 'l', 2), ('R', 'B', 'g', 2)]       # same chemicals as ('S','B',p,2), entered in the other order
    for pkg in ('A', 'B'):
        vis = QUICK_V[pkg] if level == 'quick' else range(len(VEC[pkg]))
        for p in SINGLE_PHASES:
            for vi in vis: out.append(('S', pkg, p, vi))
        for ps in MULTI_SETS:
            out.append(('M', pkg, ps, 'first', 0))
            for fill in ('first', 'second', 'both'):
                for vi in vis:
                    if vi: out.append(('M', pkg, ps, fill, vi))
    return out

def menu_for(level, recv_pkg):
    m = menu(level)
    if recv_pkg == 'C':
        m = m + [('S', 'C', 'l', 1), ('S', 'C', 'g', 3), ('R', 'C', 'l', 3), ('S', 'C', 's', 2), ('M', 'C', ('g', 'l'), 'both', 3), ('M', 'C', ('L', 'l'), 'both', 2),
                 ('M', 'C', ('l', 's'), 'second', 1)]
    return m

EB_PHASES = 'lgLsS'      # mix_from's default energy_balance=True: the one-non-empty-inlet path goes through copy_like
RECEIVERS = {
    'single-l': ('S', 'A', 'l', 4), 'single-g': ('S', 'A', 'g', 4),
    'multi-gl': ('M', 'A', ('g', 'l'), 'both', 4), 'multi-Lls': ('M', 'A', ('L', 'l'), 'both', 4),
}
# thorough tier only: more phase sets, receivers on the third package
RECEIVERS_T = {
    'multi-gls': ('M', 'A', ('g', 'l'), 'both', 4), 'multi-Ll': ('M', 'A', ('L', 'l'), 'both', 4), 'multi-Ss': ('M', 'A', ('S', 's'), 'both', 4),
    'single-l-C': ('S', 'C', 'l', 3), 'multi-gl-C': ('M', 'C', ('g', 'l'), 'both', 3),
}
def recv_pkg(kind): return 'C' if kind.endswith('-C') else 'A'

def make_receiver(kind):
    t = fixtures.tmo()
    if kind == 'multi-Lls':
        s = t.MultiStream(None, thermo=th('A'), phases=('L', 'l', 's'))
        rows = s._imol.data.rows
        for r, v in zip(rows, ((1., 0., 0.375), (0., 2.5, 0.), (2.5, 1., 0.))):
            for i, x in enumerate(v):
                if x: r.dct[i] = x
        return s
    if kind == 'multi-gls':
        s = t.MultiStream(None, thermo=th('A'), phases=('g', 'l', 's'))
        for r, v in zip(s._imol.data.rows, ((0., 0.375, 1.), (2.5, 0., 0.), (1., 1., 0.))):
            for i, x in enumerate(v):
                if x: r.dct[i] = x
        return s
    if kind in RECEIVERS_T: return make(RECEIVERS_T[kind])
    if kind == 'multi-ls':          # only used with energy_balance=True: has 'l' but not 'L', 's' but not 'S'
        return make(('M', 'A', ('l', 's'), 'both', 4))
    return make(RECEIVERS[kind])


class Mix(System):
    name = 'c01.mix'
    nontrivial_per_config = True

    def warm(self): th('A'); th('B'); th('C')
    def reset_globals(self): fixtures.reset_globals()
    def depth(self, tier): return 1

    def configs(self, tier, seed):
        self._tier = tier
        m = menu('quick' if tier == 'quick' else 'full')
        cfgs = []
        for recv in list(RECEIVERS) + ([] if tier == 'quick' else list(RECEIVERS_T)):
            for selfk in (0, 1, 2):
                cfgs.append((recv, False, selfk, None))
                for t1 in menu_for('quick' if tier == 'quick' else 'full', recv_pkg(recv)): cfgs.append((recv, False, selfk, t1))
        eb = [t for t in m if all(p in EB_PHASES for p in (t[2] if t[0] != 'M' else ''.join(t[2])))]
        for recv in ('single-l', 'single-g', 'multi-gl', 'multi-ls'):
            for selfk in (0, 1, 2):
                cfgs.append((recv, True, selfk, None))
                for t1 in eb: cfgs.append((recv, True, selfk, t1))
        k = seed % len(cfgs)
        return cfgs[k:] + cfgs[:k]

    def build(self, config):
        recv, eb, selfk, t1 = config
        st = St()
        st.config = config
        st.r = make_receiver(recv)
        st.r0 = totals(st.r)
        st.info = {}
        st.done = None
        return st

    def actions(self, st):
        recv, eb, selfk, t1 = st.config
        if t1 is None: return [()]
        tier = self._tier
        m2 = menu_for('quick' if tier == 'quick' else 'full', recv_pkg(recv))
        m3 = menu('mini' if tier == 'quick' else 'mid')
        if eb:
            ok = lambda t: all(p in EB_PHASES for p in (t[2] if t[0] != 'M' else ''.join(t[2])))
            m2 = [t for t in m2 if ok(t)]; m3 = [t for t in m3 if ok(t)]
        acts = [()]
        acts += [(t2,) for t2 in m2]
        if t1 in m3 and selfk < 2:
            acts += [(t2, t3) for t2 in m3 for t3 in m3]
        return acts

    def step(self, st, a):
        recv, eb, selfk, t1 = st.config
        tmpls = ([] if t1 is None else [t1]) + list(a)
        inlets = [make(t, T=(300. + 10. * j if eb else None)) for j, t in enumerate(tmpls)]
        if eb: st.r._thermal_condition._T = 320.
        lst = list(inlets)
        shown = [repr(t) for t in tmpls]
        if selfk >= 1: lst.insert(0, st.r); shown.insert(0, 'self')
        if selfk == 2: lst.append(st.r); shown.append('self')
        exp = {}
        for t in tmpls: exp = add(exp, tmpl_totals(t))
        if selfk: exp = add(exp, st.r0, float(selfk))
        rp = recv_pkg(recv)
        for c in cas(rp): exp.setdefault(c, 0.)
        before = [tmpl_digest(t) for t in tmpls]
        nonempty = [tmpl_totals(t) for t in tmpls if any(tmpl_totals(t).values())] + ([st.r0] * selfk)
        collide = any(sum(1 for d in nonempty if d.get(c, 0.)) >= 2 for c in cas(rp))
        classes = sorted(set(cls(t) for t in tmpls if any(tmpl_totals(t).values())))
        st.info = dict(n=len(tmpls), collide=collide, nonempty=len(nonempty))
        ne_t = [t for t in tmpls if any(tmpl_totals(t).values())]
        match = dict(op='mix', recv=recv.split('-')[0], eb=eb, nonempty=('0', '1', '2+')[min(len(nonempty), 2)],
                     cross=any(t[1] != rp for t in ne_t), multi_inlet=any(t[0] == 'M' for t in ne_t))
        try:
            st.r.mix_from(lst, energy_balance=eb)
        except Exception as e:
            en = type(e).__name__
            if eb and where(e).split(':')[0] in ('mixture.py', 'free_energy.py', 'ideal_mixture_model.py', '_thermal_condition.py') \
               or eb and en in ('DomainError', 'InfeasibleRegion'):
                raise Rejected('mix:energy-solve', cut=False)       # the temperature solve failed (C02's side); nothing is claimed
            raise Violation('unexpected-exception', f'{recv}.mix_from([{', '.join(shown)}], energy_balance={eb}) raised {en}: {e}',
                            match=dict(match, exc=en, where=where(e)), detail=dict(inlets=classes, self_inlet=selfk))
        got = totals(st.r)
        if not eq_tot(got, exp):
            raise Violation('mix-total', f'{recv}.mix_from([{', '.join(shown)}], energy_balance={eb}): '
                            f'receiver holds {got!r}, the inlets sum to {exp!r}', match=match,
                            residual=max(abs(got.get(c, 0.) - exp.get(c, 0.)) for c in set(got) | set(exp)))
        for s, b, t in zip(inlets, before, tmpls):
            if full_digest(s) != b:
                raise Violation('inlet-modified', f'mixing into {recv} changed inlet {t!r}', match=match)
        st.done = (tuple(sorted(got.items())), type(st.r).__name__)
        return ('ok', len(tmpls), collide)

    def invariants(self, st):
        return rep_invariant(st.r, 'receiver')

    def canon(self, st):
        return (st.config, st.done, full_digest(st.r))

    def nontrivial(self, st, a, obs):
        return bool(st.info.get('collide'))

    def outcome(self, st, a, obs):
        recv, eb, selfk, t1 = st.config
        tm = ([] if t1 is None else [t1]) + list(a)
        return repr((recv, eb, selfk, tuple(sorted(cls(t) + ':' + (t[2] if t[0] != 'M' else ''.join(t[2])) for t in tm)), obs,
                     type(st.r).__name__))[:300]


class MixShared(Mix):
    """the receiver SHARES its flow data with the first inlet (it is a flow proxy / a full proxy of it, or flow-linked to it): the
    property's "whether the receiver is itself one of the inlets" for the same material under another Python object.
    n = 1 or 2 inlets, both energy-balance settings, the sharing inlet first or last."""
    name = 'c01.mixshared'
    KINDS = ('flow_proxy', 'proxy', 'link')

    def configs(self, tier, seed):
        self._tier = tier
        m = menu('quick' if tier == 'quick' else 'full')
        cfgs = []
        for kind in self.KINDS:
            for eb in (False, True):
                for t1 in m:
                    if not any(tmpl_totals(t1).values()): continue
                    if eb and not all(p in EB_PHASES for p in (t1[2] if t1[0] != 'M' else ''.join(t1[2]))): continue
                    for last in (False, True): cfgs.append((kind, eb, last, t1))
        k = seed % len(cfgs)
        return cfgs[k:] + cfgs[:k]

    def build(self, config):
        kind, eb, last, t1 = config
        st = St(); st.config = config
        st.src = make(t1, T=300. if eb else None)
        if kind == 'flow_proxy': st.r = st.src.flow_proxy()
        elif kind == 'proxy': st.r = st.src.proxy()
        else:
            st.r = make(t1, T=320. if eb else None)
            st.r.link_with(st.src, flow=True, phase=False, TP=False)
        st.r0 = tmpl_totals(t1)
        st.info = {}; st.done = None
        return st

    def actions(self, st):
        kind, eb, last, t1 = st.config
        m = menu('quick' if self._tier == 'quick' else 'full')
        m = [t for t in m if sub(t[1], t1[1])]
        if eb: m = [t for t in m if all(p in EB_PHASES for p in (t[2] if t[0] != 'M' else ''.join(t[2])))]
        return ([()] if not last else []) + [(t2,) for t2 in m]

    def step(self, st, a):
        kind, eb, last, t1 = st.config
        others_t = list(a)
        others = [make(t, T=(310. if eb else None)) for t in others_t]
        lst = (others + [st.src]) if last else ([st.src] + others)
        shown = ([repr(t) for t in others_t] + ['sharing ' + repr(t1)]) if last else (['sharing ' + repr(t1)] + [repr(t) for t in others_t])
        rp = t1[1]
        exp = dict(tmpl_totals(t1))
        for t in others_t: exp = add(exp, tmpl_totals(t))
        for c in cas(rp): exp.setdefault(c, 0.)
        ne_t = [t1] + [t for t in others_t if any(tmpl_totals(t).values())]
        st.info = dict(collide=len(ne_t) >= 2 and any(sum(1 for t in ne_t if tmpl_totals(t).get(c, 0.)) >= 2 for c in cas(rp)), n=len(ne_t))
        new_phase = False
        if t1[0] == 'M':
            have = set(t1[2]) | {q.swapcase() for q in t1[2]}
            new_phase = any(q not in have for t in ne_t[1:] for q in (t[2] if t[0] != 'M' else t[2]))
        match = dict(op='mix', recv='shares-flow:' + kind, recv_class=t1[0], eb=eb, nonempty=('0', '1', '2+')[min(len(ne_t), 2)],
                     cross=any(t[1] != rp for t in ne_t), multi_inlet=any(t[0] == 'M' for t in ne_t[1:]), new_phase=new_phase)
        try:
            st.r.mix_from(lst, energy_balance=eb)
        except Exception as e:
            en = type(e).__name__
            if eb and (where(e).split(':')[0] in ('mixture.py', 'free_energy.py', 'ideal_mixture_model.py', '_thermal_condition.py') or en in ('DomainError', 'InfeasibleRegion')):
                raise Rejected('mix:energy-solve', cut=False)
            raise Violation('unexpected-exception', f'{kind} of {t1!r}: mix_from([{", ".join(shown)}], energy_balance={eb}) raised {en}: {e}',
                            match=dict(match, exc=en, where=where(e)))
        got = totals(st.r)
        if not eq_tot(got, exp):
            raise Violation('mix-total', f'receiver = {kind} of {t1!r}: mix_from([{", ".join(shown)}], energy_balance={eb}): receiver holds {got!r}, the inlets sum to {exp!r} '
                            f'(the sharing inlet now holds {totals(st.src)!r})', match=match)
        for s_, t in zip(others, others_t):
            if full_digest(s_) != tmpl_digest(t):
                raise Violation('inlet-modified', f'mixing into a {kind} receiver changed inlet {t!r}', match=match)
        st.done = (tuple(sorted(got.items())), type(st.r).__name__)
        return ('ok', len(ne_t), st.info['collide'])

    def invariants(self, st): return rep_invariant(st.r, 'receiver') + rep_invariant(st.src, 'sharing inlet')
    def canon(self, st): return (st.config, st.done, full_digest(st.r), full_digest(st.src))
    def nontrivial(self, st, a, obs): return st.info.get('n', 0) >= 1
    def outcome(self, st, a, obs):
        kind, eb, last, t1 = st.config
        return repr((kind, eb, last, cls(t1), tuple(cls(t) + ':' + (t[2] if t[0] != 'M' else ''.join(t[2])) for t in a), obs, type(st.r).__name__))[:300]


class Mix3(Mix):
    """the FULL ordered product of three inlet templates for one receiver (energy_balance=False): thorough = the full menu (139
    templates; receivers single-l and multi-gl) or the quick menu (71; single-g, multi-Lls) with the receiver not among the inlets
    + the quick menu with the receiver as first inlet; quick = the 12-template sub-menu."""
    def __init__(self, recv, tcap_t=260, full=True):
        self.recv = recv
        self.full = full
        self.name = f'c01.mix3.{recv}'
        self._tcap_t = tcap_t
        self._tier = 'quick'
    def time_cap(self, tier): return 30 if tier == 'quick' else self._tcap_t

    def _menus(self, tier):
        if tier == 'quick': return {0: menu('mini'), 1: []}
        return {0: menu_for('full', recv_pkg(self.recv)) if self.full else menu('quick'), 1: menu('quick')}

    def configs(self, tier, seed):
        self._tier = tier
        cfgs = []
        for selfk, m in self._menus(tier).items():
            cfgs += [(self.recv, selfk, t1, t2) for t1 in m for t2 in m]
        k = seed % len(cfgs)
        return cfgs[k:] + cfgs[:k]

    def build(self, config):
        recv, selfk, t1, t2 = config
        st = Mix.build(self, (recv, False, selfk, t1))
        st.cfg = config; st.t2 = t2
        return st

    def actions(self, st):
        return [(t3,) for t3 in self._menus(self._tier)[st.cfg[1]]]

    def step(self, st, a): return Mix.step(self, st, (st.t2,) + tuple(a))
    def canon(self, st): return (st.cfg, st.done, full_digest(st.r))
    def outcome(self, st, a, obs): return Mix.outcome(self, st, (st.t2,) + tuple(a), obs)


# ==================================================================================================================
# layer 1b: splitting

SPLITS_SCALAR = (0., 0.25, 1.)

def split_vectors(n, full=False): return list(itertools.product((0., 0.25, 0.5, 1.) if full else (0., 0.5, 1.), repeat=n))

FEEDS = [('S', 'A', 'l', 4), ('S', 'A', 'g', 2), ('S', 'A', 'l', 0), ('M', 'A', ('g', 'l'), 'both', 4), ('M', 'A', ('g', 'l'), 'first', 2),
         ('S', 'B', 'l', 2), ('S', 'B', 'l', 0), ('M', 'B', ('g', 'l'), 'both', 2), ('S', 'A', 's', 4), ('M', 'A', ('l', 's'), 'second', 4)]
OUTLETS = [('S', 'A', 'l', 1), ('S', 'B', 'l', 1), ('M', 'A', ('g', 'l'), 'first', 3), ('M', 'B', ('g', 'l'), 'both', 2), ('S', 'A', 'g', 0), 'feed']


class Split(System):
    name = 'c01.split'
    nontrivial_per_config = True
    def warm(self): th('A'); th('B')
    def reset_globals(self): fixtures.reset_globals()
    def depth(self, tier): return 1

    def configs(self, tier, seed):
        self._tier = tier
        cfgs = []
        for f in FEEDS:
            for o1 in OUTLETS:
                for o2 in OUTLETS:
                    if o1 == 'feed' and o2 == 'feed': continue
                    ok = True
                    for o in (o1, o2):
                        if o != 'feed' and o[1] == 'B' and f[1] == 'A': ok = False     # outlet must be a superset of the feed
                    if not ok: continue
                    fph = f[2] if f[0] == 'S' else ''.join(f[2])
                    if f[0] == 'M' and any(o != 'feed' and any(q not in fph for q in (o[2] if o[0] != 'M' else ''.join(o[2]))) for o in (o1, o2)): continue
                    for eb in (False, True):
                        if eb and any(p not in 'lg' for t in (f, o1, o2) if t != 'feed' for p in (t[2] if t[0] != 'M' else ''.join(t[2]))): continue
                        cfgs.append((f, o1, o2, eb))
        k = seed % len(cfgs)
        return cfgs[k:] + cfgs[:k]

    def build(self, config):
        f, o1, o2, eb = config
        st = St(); st.config = config
        st.f = make(f)
        st.s1 = st.f if o1 == 'feed' else make(o1)
        st.s2 = st.f if o2 == 'feed' else make(o2)
        st.info = {}; st.done = None
        return st

    def actions(self, st):
        f = st.config[0]
        n = len(VEC[f[1]][0])
        vecs = split_vectors(n)
        if self._tier == 'quick': vecs = [v for j, v in enumerate(vecs) if j % 4 == 1 or v in ((0.,) * n, (1.,) * n)]
        else: vecs = split_vectors(n, full=True)          # {0, 1/4, 1/2, 1}^n : 64 vectors for A, 16 for B
        return [('sc', x) for x in SPLITS_SCALAR] + [('vec', v) for v in vecs]

    def step(self, st, a):
        f, o1, o2, eb = st.config
        kind, x = a
        split = x if kind == 'sc' else np.array(x)
        feed = tmpl_totals(f)
        fc = cas(f[1])
        sv = np.full(len(fc), x) if kind == 'sc' else np.array(x)
        e1 = {c: feed[c] * s_ for c, s_ in zip(fc, sv)}
        e2 = {c: feed[c] - feed[c] * s_ for c, s_ in zip(fc, sv)}
        st.info = dict(nontrivial=any(feed[c] and 0 < s_ < 1 for c, s_ in zip(fc, sv)))
        outs = [o for o in (o1, o2) if o != 'feed']
        match = dict(op='split', feed=f[0], multi_outlet=any(o[0] == 'M' for o in outs), cross=any(o[1] != f[1] for o in outs), eb=eb)
        fb = full_digest(st.f)
        try:
            st.f.split_to(st.s1, st.s2, split, energy_balance=eb)
        except Exception as e:
            en = type(e).__name__
            zero = {'s1': not any(e1.values()), 's2': not any(e2.values())}
            raise Violation('unexpected-exception', f'{f!r}.split_to({o1!r}, {o2!r}, {x!r}, energy_balance={eb}) raised {en}: {e}',
                            match=dict(match, exc=en, where=where(e)), detail=dict(empty_outlet=('s1' if zero['s1'] else '') + ('s2' if zero['s2'] else ''), split=kind))
        g1, g2 = totals(st.s1), totals(st.s2)
        if o1 != 'feed' and not eq_tot(g1, e1):
            raise Violation('split-total', f'{f!r}.split_to({o1!r}, {o2!r}, {x!r}): first outlet holds {g1!r}, split*feed is {e1!r}', match=dict(match, outlet='s1'))
        if o2 != 'feed' and not eq_tot(g2, e2):
            raise Violation('split-total', f'{f!r}.split_to({o1!r}, {o2!r}, {x!r}): second outlet holds {g2!r}, feed - split*feed is {e2!r}', match=dict(match, outlet='s2'))
        if o2 == 'feed' and not eq_tot(g2, e2):
            raise Violation('split-total', f'{f!r}.split_to({o1!r}, feed, {x!r}): feed-as-second-outlet holds {g2!r}, expected {e2!r}', match=dict(match, outlet='s2'))
        if o1 == 'feed' and o2 != 'feed' and not eq_tot(g1, e1):
            raise Violation('split-total', f'{f!r}.split_to(feed, {o2!r}, {x!r}): feed-as-first-outlet holds {g1!r}, expected {e1!r}', match=dict(match, outlet='s1'))
        if o1 != 'feed' and o2 != 'feed' and not eq_tot(totals(st.f), feed):
            raise Violation('feed-modified', f'{f!r}.split_to({o1!r}, {o2!r}, {x!r}) changed the feed to {totals(st.f)!r}', match=match)
        st.done = (tuple(sorted(g1.items())), tuple(sorted(g2.items())))
        return ('ok', st.info['nontrivial'])

    def invariants(self, st):
        return rep_invariant(st.s1, 's1') + rep_invariant(st.s2, 's2') + rep_invariant(st.f, 'feed')

    def canon(self, st): return (st.config, st.done, full_digest(st.s1), full_digest(st.s2))
    def nontrivial(self, st, a, obs): return bool(st.info.get('nontrivial'))
    def outcome(self, st, a, obs):
        f, o1, o2, eb = st.config
        return repr((cls(f), o1 if o1 == 'feed' else cls(o1), o2 if o2 == 'feed' else cls(o2), eb, a[0], obs, type(st.s1).__name__, type(st.s2).__name__))


# ==================================================================================================================
# layer 1c: separate_out, copy_flow(remove=True), scaling

PARTS = [t for t in menu('full') if (t[0] == 'S' and t[2] in 'lgs') or (t[0] == 'M' and t[2] in (('g', 'l'), ('l', 's')))]
COPY_SRC = [('S', 'A', 'l', 4), ('S', 'A', 'g', 2), ('S', 'B', 'l', 2), ('S', 'B', 'l', 0), ('M', 'A', ('g', 'l'), 'both', 4), ('M', 'B', ('g', 'l'), 'both', 2),
            ('M', 'A', ('g', 'l'), 'first', 2), ('S', 'A', 'l', 0)]
COPY_DST = [('S', 'A', 'l', 3), ('S', 'A', 'l', 0), ('M', 'A', ('g', 'l'), 'second', 4), ('S', 'B', 'l', 1)]
COPY_KEYS = ['...', 'Water', 'Methanol', ('Water', 'Ethanol'), ('Ethanol',), ['Ethanol', 'Water'], '64-17-5']
SCALE_T = [('S', 'A', 'l', 4), ('S', 'B', 'g', 2), ('M', 'A', ('g', 'l'), 'both', 4), ('M', 'B', ('l', 's'), 'second', 2), ('S', 'A', 'l', 0)]


class SepCopy(System):
    name = 'c01.sepcopy'
    nontrivial_per_config = True
    def warm(self): th('A'); th('B')
    def reset_globals(self): fixtures.reset_globals()
    def depth(self, tier): return 1

    def configs(self, tier, seed):
        cfgs = []
        for mk in ('single-l', 'single-g', 'multi-gl', 'multi-gls'):
            for eb in (False, True): cfgs.append(('sep', mk, eb))
        for d in COPY_DST:
            for remove in (True, False): cfgs.append(('copy', d, remove))
        for t in SCALE_T: cfgs.append(('scale', t))
        k = seed % len(cfgs)
        return cfgs[k:] + cfgs[:k]

    def build(self, config):
        st = St(); st.config = config; st.info = {}; st.done = None; st.objs = []
        return st

    def actions(self, st):
        c = st.config
        if c[0] == 'sep':
            _, mk, eb = c
            acts = []
            for p in PARTS:
                phs = p[2] if p[0] == 'S' else ''.join(p[2])
                if mk.startswith('single'):
                    pass
                elif mk == 'multi-gl' and any(q not in 'gl' for q in phs): continue
                if eb and any(q not in 'gl' for q in phs): continue
                if eb and mk.startswith('single') and any(q != mk[-1] for q in phs): continue
                for base in ((4,) if eb else (0, 4)): acts.append((p, base))
            acts.append(('self', 4))
            return acts
        if c[0] == 'copy':
            acts = []
            for src in COPY_SRC:
                for k in COPY_KEYS:
                    for ex in (False, True):
                        kk = k if not isinstance(k, list) else ('L',) + tuple(k)
                        acts.append((src, kk, ex))
                        if c[1][0] == 'M':          # MultiStream.copy_flow(other, phase=, IDs=): every phase of the destination
                            for ph in c[1][2]: acts.append((src, kk, ex, ph))
            return acts
        acts = []
        for form in ('scale', 'imul', 'mul', 'rmul'):
            for k in (0., 0.5, 3.): acts.append((form, k))
        for form in ('idiv', 'div'):
            for k in (0.5, 4.): acts.append((form, k))
        return acts

    def step(self, st, a):
        c = st.config
        if c[0] == 'sep': return self._sep(st, a)
        if c[0] == 'copy': return self._copy(st, a)
        return self._scale(st, a)

    # separate_out: mixture = base (+) part, built positionally phase by phase, so that part <= mixture in every phase
    def _sep(self, st, a):
        _, mk, eb = st.config
        t = fixtures.tmo()
        part_t, base = a
        phases = {'single-l': None, 'single-g': None, 'multi-gl': ('g', 'l'), 'multi-gls': ('g', 'l', 's')}[mk]
        basev = VA[base]
        if phases is None:
            mix = t.Stream(None, thermo=th('A'), phase=mk[-1])
        else:
            mix = t.MultiStream(None, thermo=th('A'), phases=phases)
        st.objs = [mix]
        match = dict(op='separate_out', mixture=mk.split('-')[0])
        if part_t == 'self':
            for i, x in enumerate(basev):
                if x: (mix._imol.data if phases is None else mix._imol.data.rows[0]).dct[i] = x
            try: mix.separate_out(mix, energy_balance=eb)
            except Exception as e:
                raise Violation('unexpected-exception', f'{mk}.separate_out(itself) raised {type(e).__name__}: {e}', match=dict(match, part='self', exc=type(e).__name__, where=where(e)))
            if any(totals(mix).values()):
                raise Violation('separate-total', f'{mk}.separate_out(itself) leaves {totals(mix)!r}', match=dict(match, part='self'))
            st.info = dict(nontrivial=True)
            return ('ok', 'self')
        part = make(part_t, T=310. if eb else None)
        match['part'] = cls(part_t)
        pc = cas(part_t[1]); ac = cas('A')
        # fill the mixture: base in the first row / the only row, plus the part's material phase by phase
        pd = fixtures.dense(part)
        if phases is None:
            row = mix._imol.data
            v = np.array(basev)
            for p, arrp in pd.items():
                for j, x in enumerate(arrp): v[ac.index(pc[j])] += x
            for i, x in enumerate(v):
                if x: row.dct[i] = float(x)
        else:
            ph = mix._imol._phases
            for r, p in enumerate(ph):
                v = np.array(basev) if r == len(ph) - 1 else np.zeros(3)
                if p in pd:
                    for j, x in enumerate(pd[p]): v[ac.index(pc[j])] += x
                for i, x in enumerate(v):
                    if x: mix._imol.data.rows[r].dct[i] = float(x)
        exp = {c_: float(x) for c_, x in zip(ac, basev)}
        pb = full_digest(part)
        moved = any(tmpl_totals(part_t).values())
        st.info = dict(nontrivial=moved)
        try:
            mix.separate_out(part, energy_balance=eb)
        except Exception as e:
            if eb and where(e).split(':')[0] in ('mixture.py', 'free_energy.py', 'ideal_mixture_model.py'):
                raise Rejected('separate_out:energy-solve', cut=False)
            raise Violation('unexpected-exception', f'{mk}(base {basev!r} + part).separate_out({part_t!r}, energy_balance={eb}) raised {type(e).__name__}: {e}',
                            match=dict(match, exc=type(e).__name__, where=where(e)))
        got = totals(mix)
        if not eq_tot(got, exp):
            raise Violation('separate-total', f'{mk}(base {basev!r} + part).separate_out({part_t!r}) leaves {got!r}, the remainder is {exp!r}', match=match)
        if full_digest(part) != pb:
            raise Violation('inlet-modified', f'separate_out changed the separated stream {part_t!r}', match=match)
        return ('ok', moved)

    def _copy(self, st, a):
        _, dst_t, remove = st.config
        src_t, k, ex = a[:3]
        phase = ... if len(a) < 4 or a[3] == '...' else a[3]
        key = ... if k == '...' else (list(k[1:]) if isinstance(k, tuple) and k and k[0] == 'L' else k)
        dst = make(dst_t); src = make(src_t)
        st.objs = [dst, src]
        t = fixtures.tmo()
        multi_dst = isinstance(dst, t.MultiStream)
        sc = cas(src_t[1]); dc = cas(dst_t[1])
        names = {'Water': '7732-18-5', 'Ethanol': '64-17-5', 'Methanol': '67-56-1', '64-17-5': '64-17-5'}
        chosen = set(sc)
        if key is ...: sel = set(sc) if not ex else set()
        else:
            ks = [key] if isinstance(key, str) else list(key)
            chosen = {names[x] for x in ks}
            sel = (set(sc) - chosen) if ex else chosen
        s0 = totals(src); d0 = totals(dst)
        sden = {ph: v.copy() for ph, v in fixtures.dense(src).items()}
        src_ph = list(sden)
        R = set(src_ph) if (phase is ... or not multi_dst) else {ph for ph in src_ph if ph == phase}
        match = dict(op='copy_flow', dst=dst_t[0], src=src_t[0], cross=dst_t[1] != src_t[1], key=('...' if key is ... else type(key).__name__), exclude=ex,
                     phase='...' if phase is ... else ('src' if R else 'other'))
        # inside the quantifier: the destination package lists every chemical that is moved; the key names chemicals of the destination
        moved = {c_ for c_ in sel if c_ in sc}
        key_ok = key is ... or all(names[x] in dc for x in ([key] if isinstance(key, str) else key))
        inside = key_ok and all((c_ in dc) for c_ in moved if s0.get(c_, 0.)) and all(c_ in dc for c_ in sc)
        key_in_src = key is ... or all(names[x] in sc for x in ([key] if isinstance(key, str) else key))
        try:
            if multi_dst: dst.copy_flow(src, phase, key, remove=remove, exclude=ex)
            else: dst.copy_flow(src, key, remove=remove, exclude=ex)
        except Exception as e:
            en = type(e).__name__
            if multi_dst and en == 'UndefinedPhase' and any(ph.lower() not in {q.lower() for q in dst.phases} for ph in src_ph):
                raise Rejected('copy_flow:phase-absent-in-destination', cut=False)
            if multi_dst and isinstance(e, ValueError) and 'same chemicals' in str(e):
                raise Rejected('copy_flow:multi-dst-other-package', cut=False)
            if not inside:
                raise Rejected('copy_flow:outside-quantifier', cut=False)
            if not key_in_src and not ex and en == 'UndefinedChemicalAlias':
                raise Rejected('copy_flow:key-not-in-source', cut=False)      # documented: the key must name chemicals of the source
            raise Violation('unexpected-exception', f'{dst_t!r}.copy_flow({src_t!r}, {key!r}, remove={remove}, exclude={ex}) raised {en}: {e}',
                            match=dict(match, exc=en, where=where(e), key_in_src=key_in_src))
        if not inside: raise Rejected('copy_flow:outside-quantifier-returned', cut=False)
        # reference: which (phase, chemical) entries of the source are moved
        chosen_all = key is ...
        def in_block(ph, c_):
            return (ph in R) and (chosen_all or c_ in chosen)
        sa = fixtures.dense(src)
        dd = fixtures.dense(dst)
        d1 = totals(dst)
        call = f'{dst_t!r}.copy_flow({src_t!r}, phase={phase!r}, IDs={key!r}, remove={remove}, exclude={ex})'
        arrived = {}
        any_moved = False
        for ph, v in sden.items():
            for j, x in enumerate(v):
                c_ = sc[j]
                mv = (not in_block(ph, c_)) if ex else in_block(ph, c_)
                if key is ... and ex and not multi_dst: mv = False          # Stream.copy_flow(..., exclude=True) is documented as a no-op
                after = sa[ph][j] if ph in sa else None
                if mv:
                    any_moved = any_moved or x > 0
                    arrived[c_] = arrived.get(c_, 0.) + x
                    if multi_dst:
                        row = dd.get(ph)
                        if row is None or row[dc.index(c_)] != x:
                            raise Violation('copy-total', f'{call}: phase {ph} of the destination holds {None if row is None else row.tolist()!r}, the source had '
                                            f'{v.tolist()!r} of moved chemical {c_}', match=dict(match, side='dst'))
                    if remove and after != 0.:
                        raise Violation('copy-total', f'{call} left {after!r} of moved chemical {c_} (phase {ph}) in the source: material duplicated',
                                        match=dict(match, side='src-kept'))
                    if not remove and after != x:
                        raise Violation('copy-total', f'{call} changed source entry ({ph}, {c_}) from {x!r} to {after!r} without remove', match=dict(match, side='src-lost'))
                elif after != x:
                    raise Violation('copy-total', f'{call} changed source entry ({ph}, {c_}) from {x!r} to {after!r} although it was not moved: material lost',
                                    match=dict(match, side='src-lost'))
        if not multi_dst:
            for c_, x in arrived.items():
                if d1.get(c_, 0.) != x:
                    raise Violation('copy-total', f'{call}: destination holds {d1!r}, {x!r} of chemical {c_} was moved', match=dict(match, side='dst'))
        st.info = dict(nontrivial=any_moved)
        return ('ok', st.info['nontrivial'])

    def _scale(self, st, a):
        _, tm = st.config
        form, k = a
        s = make(tm)
        st.objs = [s]
        before = {p: v.copy() for p, v in fixtures.dense(s).items()}
        match = dict(op=form, stream=cls(tm))
        try:
            if form == 'scale': s.scale(k); r = s
            elif form == 'imul': s *= k; r = s
            elif form == 'idiv': s /= k; r = s
            elif form == 'mul': r = s * k
            elif form == 'rmul': r = k * s
            elif form == 'div': r = s / k
        except Exception as e:
            raise Violation('unexpected-exception', f'{form} {tm!r} by {k} raised {type(e).__name__}: {e}', match=dict(match, exc=type(e).__name__, where=where(e)))
        st.objs.append(r)
        f = (1. / k) if 'div' in form else k
        after = fixtures.dense(r)
        for p, v in before.items():
            exp = v / k if 'div' in form else v * k
            if p not in after or not np.array_equal(after[p], exp):
                raise Violation('scale-total', f'{form} {tm!r} by {k}: phase {p} holds {after.get(p)!r}, expected {exp!r}', match=match)
        if form in ('mul', 'rmul', 'div'):
            now = fixtures.dense(s)
            if any(not np.array_equal(now[p], before[p]) for p in before):
                raise Violation('operand-modified', f'{form} {tm!r} by {k} changed the operand', match=match)
            if r is s or r._imol.data is s._imol.data:
                raise Violation('operand-modified', f'{form} returned the operand / shares its data', match=match)
        st.info = dict(nontrivial=any(v.any() for v in before.values()) and k != 1)
        return ('ok', form)

    def invariants(self, st):
        out = []
        for j, s in enumerate(st.objs): out += rep_invariant(s, f'stream{j}')
        return out

    def canon(self, st): return (st.config, tuple(full_digest(s) for s in st.objs))
    def nontrivial(self, st, a, obs): return bool(st.info.get('nontrivial'))
    def outcome(self, st, a, obs):
        c = st.config
        if c[0] == 'sep': return repr((c, cls(a[0]) if a[0] != 'self' else 'self', obs))
        if c[0] == 'copy': return repr((cls(c[1]), c[2], cls(a[0]), type(a[1]).__name__ if a[1] != '...' else '...', a[2], obs))
        return repr((cls(c[1]), a, obs))


# ==================================================================================================================
# layer 2: histories on three streams, _index_cache part of the state

class History(System):
    nontrivial_per_config = True
    def __init__(self, name='c01.history', universes=None, depth_q=3, depth_t=4, tcap_t=700, vector_splits=True):
        self.name = name
        self._tier = 'quick'
        self._universes = universes
        self._dq, self._dt, self._tcap_t = depth_q, depth_t, tcap_t
        self.vector_splits = vector_splits
    def warm(self): th('A'); th('B'); th('C')
    def reset_globals(self): fixtures.reset_globals()
    def depth(self, tier): return self._dq if tier == 'quick' else self._dt
    def time_cap(self, tier): return 60 if tier == 'quick' else self._tcap_t

    def configs(self, tier, seed):
        self._tier = tier
        if self._universes is not None: return list(self._universes)
        cfgs = [(('S', 'A', 'l', 4), ('M', 'A', ('g', 'l'), 'both', 2), ('S', 'B', 'l', 2))]
        if tier != 'quick':
            cfgs.append((('S', 'A', 'g', 2), ('M', 'A', ('l', 's'), 'first', 4), ('M', 'B', ('g', 'l'), 'both', 2)))
            # three packages: a receiver on the interleaved superset C, fed from A and B
            cfgs.append((('S', 'C', 'l', 3), ('M', 'A', ('g', 'l'), 'both', 2), ('S', 'B', 'l', 2)))
        return cfgs

    def build(self, config):
        st = St(); st.config = config
        st.s = [make(t) for t in config]
        st.pk = [t[1] for t in config]
        st.tot = [tmpl_totals(t) for t in config]
        st.info = {}
        return st

    def actions(self, st):
        acts = []
        n = len(st.s)
        t = fixtures.tmo()
        B_idx = [i for i in range(n) if st.pk[i] == 'B']
        # mixing: every receiver, inlets = the other streams whose package is contained in the receiver's
        for r in range(n):
            others = [i for i in range(n) if i != r and sub(st.pk[i], st.pk[r])]
            if not others:
                acts.append(('mix', r, (r, r))); continue
            lists = [[o] for o in others] + [[r, o] for o in others]
            if len(others) > 1: lists += [others, [r] + others]
            lists.append([others[-1], r, r])
            for lst in lists: acts.append(('mix', r, tuple(lst)))
        # splitting: outlets must be supersets of the feed
        for f in range(n):
            for o1 in range(n):
                for o2 in range(n):
                    if o1 == o2: continue
                    if any(not sub(st.pk[f], st.pk[o]) for o in (o1, o2)): continue
                    # a single-phase feed split into a multi-phase outlet is not supported by Stream.split_to (classified at depth 1)
                    if not isinstance(st.s[f], t.MultiStream) and any(isinstance(st.s[o], t.MultiStream) for o in (o1, o2) if o != f): continue
                    # a multi-phase feed assigns its phase set to the outlets: the new set must hold the outlet's phase / every
                    # non-empty phase of the outlet (the precondition of the `phases` setter, C12)
                    if isinstance(st.s[f], t.MultiStream) and any(not self._phases_within(st.s[o], st.s[f]) for o in (o1, o2) if o != f): continue
                    nf = len(VEC[st.pk[f]][0])
                    acts.append(('split', f, o1, o2, ('sc', 0.25)))
                    if self.vector_splits: acts.append(('split', f, o1, o2, ('vec', (1., 0., 0.5, 0.25, 1.)[:nf])))
        # separate_out when the part is contained phase by phase (evaluated on the current, consistent state)
        for mx in range(n):
            for p in range(n):
                if mx == p: continue
                if not sub(st.pk[p], st.pk[mx]): continue
                if isinstance(st.s[mx], t.MultiStream) and not self._phases_within(st.s[p], st.s[mx]): continue
                if self._contained(st, p, mx): acts.append(('sep', mx, p))
        for d in range(n):
            for s_ in range(n):
                if d == s_: continue
                if not sub(st.pk[s_], st.pk[d]): continue
                acts.append(('copy', d, s_, '...'))
                acts.append(('copy', d, s_, 'Water'))
                if isinstance(st.s[d], t.MultiStream) and st.pk[d] == st.pk[s_]:
                    acts.append(('copy', d, s_, 'Water', st.s[d].phases[0]))      # explicit phase= argument
        for i in range(n):
            for k in (0.5, 3., 0.): acts.append(('scale', i, k))
        # the same flows entered in another order (what `imol[b] = ..; imol[a] = ..` instead of a, b does): no flow changes,
        # only the insertion order of the sparse dict, from which index_overlap derives its cache key
        for i in B_idx:
            if not isinstance(st.s[i], t.MultiStream) and len(st.s[i]._imol.data.dct) >= 2: acts.append(('reorder', i))
        return acts

    @staticmethod
    def _phases_within(o, f):
        t = fixtures.tmo()
        fph = {q.lower() for q in f.phases}
        if isinstance(o, t.MultiStream):
            return all(ph.lower() in fph for ph, v in fixtures.dense(o).items() if v.any())
        return o.phase.lower() in fph

    def _contained(self, st, p, mx):
        t = fixtures.tmo()
        part, mix = st.s[p], st.s[mx]
        if not any(totals(part).values()): return True
        pc, mc = cas(st.pk[p]), cas(st.pk[mx])
        pd, md = fixtures.dense(part), fixtures.dense(mix)
        if isinstance(mix, t.MultiStream):
            for ph, v in pd.items():
                if not v.any(): continue
                if ph not in md: return False
                for j, x in enumerate(v):
                    if x > md[ph][mc.index(pc[j])]: return False
            return True
        tot = totals(mix)
        pt = totals(part)
        return all(pt[c] <= tot.get(c, 0.) for c in pt)

    def step(self, st, a):
        op = a[0]
        S = st.s; tot = st.tot
        t = fixtures.tmo()
        before_all = [full_digest(s) for s in S]
        changed0 = False
        def k(i): return cls(S[i], st.pk[i])
        try:
            if op == 'mix':
                _, r, lst = a
                ne = [i for i in lst if any(tot[i].values())]
                match = dict(op='mix', recv=k(r).split('-')[0], eb=False, nonempty=('0', '1', '2+')[min(len(ne), 2)],
                             cross=any(st.pk[i] != st.pk[r] for i in ne), multi_inlet=any(isinstance(S[i], t.MultiStream) for i in ne if i != r))
                exp = {}
                for i in lst: exp = add(exp, tot[i])
                for c in cas(st.pk[r]): exp.setdefault(c, 0.)
                S[r].mix_from([S[i] for i in lst], energy_balance=False)
                new = {r: exp}
            elif op == 'split':
                _, f, o1, o2, (kind, x) = a
                outs = [o for o in (o1, o2) if o != f]
                match = dict(op='split', feed='M' if isinstance(S[f], t.MultiStream) else 'S', multi_outlet=any(isinstance(S[o], t.MultiStream) for o in outs),
                             cross=any(st.pk[o] != st.pk[f] for o in outs), eb=False)
                fc = cas(st.pk[f])
                sv = np.full(len(fc), x) if kind == 'sc' else np.array(x)
                e1 = {c: tot[f].get(c, 0.) * s_ for c, s_ in zip(fc, sv)}
                e2 = {c: tot[f].get(c, 0.) - tot[f].get(c, 0.) * s_ for c, s_ in zip(fc, sv)}
                S[f].split_to(S[o1], S[o2], x if kind == 'sc' else np.array(x), energy_balance=False)
                new = {o1: e1, o2: e2}
            elif op == 'sep':
                _, mx, p = a
                match = dict(op='separate_out', mixture=k(mx).split('-')[0], part=('multi' if isinstance(S[p], t.MultiStream) else 'single') + '-' + ('B' if st.pk[p] != st.pk[mx] else 'A'))
                S[mx].separate_out(S[p], energy_balance=False)
                new = {mx: add(tot[mx], tot[p], -1.0)}
            elif op == 'copy':
                _, d, s_, key = a[:4]
                ph = a[4] if len(a) > 4 else None
                match = dict(op='copy_flow', dst='M' if isinstance(S[d], t.MultiStream) else 'S', src='M' if isinstance(S[s_], t.MultiStream) else 'S',
                             cross=st.pk[d] != st.pk[s_], key='...' if key == '...' else 'str', exclude=False)
                multi_dst = isinstance(S[d], t.MultiStream)
                kk = ... if key == '...' else key
                wc = '7732-18-5'
                if multi_dst and isinstance(S[s_], t.MultiStream) and st.pk[d] == st.pk[s_]:
                    # multi-phase -> multi-phase: rows are addressed by phase LABEL; what is moved arrives in the row of the same
                    # label and leaves the source, every other source entry stays, nothing is removed that did not arrive
                    sd = fixtures.dense(S[s_]); sc_ = cas(st.pk[s_]); dc_ = cas(st.pk[d])
                    low = lambda q: q.lower()
                    dphs = {low(q) for q in S[d].phases}; sphs = {low(q) for q in S[s_].phases}
                    rows = list(sd) if ph is None else [q for q in sd if q == ph]
                    match['phase'] = '...' if ph is None else ('src' if rows else 'other')
                    match['phase_sets'] = 'same' if tuple(S[d].phases) == tuple(S[s_].phases) else 'differ'
                    try:
                        S[d].copy_flow(S[s_], ... if ph is None else ph, kk, remove=True)
                    except Exception as e:
                        absent = (ph is not None and (low(ph) not in sphs or low(ph) not in dphs)) or (ph is None and not sphs <= dphs)
                        if type(e).__name__ == 'UndefinedPhase' and absent and [full_digest(x) for x in S] == before_all:
                            raise Rejected('copy_flow:phase-absent', cut=False)
                        raise
                    sa = fixtures.dense(S[s_]); da = fixtures.dense(S[d])
                    chems = set(sc_) if key == '...' else {wc}
                    for q, v in sd.items():
                        for j, x in enumerate(v):
                            c_ = sc_[j]
                            if q in rows and c_ in chems:
                                changed0 = changed0 or x > 0
                                got_row = da[q][dc_.index(c_)] if q in da else None
                                if got_row != x and not (got_row is None and x == 0):
                                    raise Violation('copy-total', f'{a!r}: {x!r} of {c_} was to be moved from phase {q} of the source; phase {q} of the destination holds '
                                                    f'{got_row!r} (destination phases {S[d].phases!r}, source phases {S[s_].phases!r})', match=dict(match, side='dst'))
                                if sa[q][j] != 0.:
                                    raise Violation('copy-total', f'{a!r}: moved entry ({q}, {c_}) still holds {sa[q][j]!r} in the source', match=dict(match, side='src-kept'))
                            elif sa[q][j] != x:
                                raise Violation('copy-total', f'{a!r}: source entry ({q}, {c_}) went from {x!r} to {sa[q][j]!r} although phase {q} / that chemical was not '
                                                f'addressed (destination phases {S[d].phases!r}, source phases {S[s_].phases!r}): material '
                                                f'{"lost" if q not in da or da[q][dc_.index(c_)] != x else "moved under another label"}', match=dict(match, side='src-lost'))
                    new = {}
                    for i_ in (d, s_):
                        tot[i_] = totals(S[i_]); before_all[i_] = full_digest(S[i_])
                    ph = 'done'
                elif ph is not None:
                    sd = fixtures.dense(S[s_])
                    amount = float(sd[ph][cas(st.pk[s_]).index(wc)]) if ph in sd else 0.
                    match['phase'] = 'src' if ph in sd else 'other'
                    S[d].copy_flow(S[s_], ph, kk, remove=True)
                    if ph in sd:
                        got_row = fixtures.dense(S[d])[ph][cas(st.pk[d]).index(wc)]
                        if got_row != amount:
                            raise Violation('copy-total', f'{a!r}: phase {ph} of the destination holds {got_row!r} of Water, the source row had {amount!r}', match=dict(match, side='dst'))
                    ns = dict(tot[s_]); ns[wc] = tot[s_].get(wc, 0.) - amount
                    new = {s_: ns}
                    tot[d] = totals(S[d])            # the destination's other entries follow the documented copy semantics
                    before_all[d] = full_digest(S[d])
                elif multi_dst: S[d].copy_flow(S[s_], ..., kk, remove=True)
                else: S[d].copy_flow(S[s_], kk, remove=True)
                if ph is not None: pass
                elif key == '...':
                    new = {d: dict(tot[s_]), s_: {c: 0. for c in tot[s_]}}
                    new['partial_dst'] = False
                else:
                    nd = dict(tot[d]); nd[wc] = tot[s_].get(wc, 0.)
                    ns = dict(tot[s_]); ns[wc] = 0.
                    new = {d: nd, s_: ns, 'partial_dst': True}
            elif op == 'reorder':
                dct = S[a[1]]._imol.data.dct
                items = list(reversed(list(dct.items()))); dct.clear(); dct.update(items)
                match = dict(op='reorder'); new = {}
                before_all[a[1]] = full_digest(S[a[1]])
            elif op == 'scale':
                _, i, x = a
                match = dict(op='scale', stream=k(i))
                S[i].scale(x)
                new = {i: {c: v * x for c, v in tot[i].items()}}
            else:
                raise ValueError(a)
        except (Violation, Rejected): raise
        except Exception as e:
            en = type(e).__name__
            if op == 'copy' and isinstance(e, ValueError) and 'same chemicals' in str(e):
                raise Rejected('copy_flow:multi-dst-other-package', cut=False)
            if op == 'copy' and en == 'UndefinedPhase' and isinstance(S[a[1]], t.MultiStream) and not isinstance(S[a[2]], t.MultiStream) \
               and S[a[2]].phase.lower() not in {q.lower() for q in S[a[1]].phases}:
                # MultiStream.copy_flow empties the destination before it looks the source's phase up: the transition is cut
                raise Rejected('copy_flow:phase-absent-in-destination', cut=True)
            raise Violation('unexpected-exception', f'{a!r} raised {en}: {e}', match=dict(match, exc=en, where=where(e)),
                            detail=dict(cacheA=len(th('A').chemicals._index_cache), cacheB=len(th('B').chemicals._index_cache)))
        partial = new.pop('partial_dst', None)
        changed = changed0
        for i in range(len(S)):
            got = totals(S[i])
            if i in new:
                exp = new[i]
                if op == 'copy' and i == a[1]:
                    # only the moved material is compared on the destination
                    keys = [c for c in exp if (not partial) or c == '7732-18-5']
                    ok = all(got.get(c, 0.) == exp.get(c, 0.) for c in keys)
                    if ok: exp = got
                else:
                    ok = eq_tot(got, exp)
                if not ok:
                    raise Violation(f'{op}-total' if op != 'sep' else 'separate-total', f'{a!r}: stream {i} holds {got!r}, expected {exp!r}', match=dict(match, stream=k(i)))
                changed = changed or not eq_tot(exp, tot[i])
                tot[i] = {c: exp.get(c, 0.) for c in cas(st.pk[i])}
            else:
                if full_digest(S[i]) != before_all[i]:
                    raise Violation('bystander-modified', f'{a!r} changed stream {i}, which is not a receiver/outlet of the operation', match=match)
        st.info = dict(changed=changed)
        return ('ok', op, changed)

    def invariants(self, st):
        out = []
        for j, s in enumerate(st.s): out += rep_invariant(s, f'stream{j}')
        return out

    def canon(self, st):
        return (tuple(full_digest(s) for s in st.s),) + tuple(cache_digest(p) for p in sorted(set(st.pk)))

    def nontrivial(self, st, a, obs): return bool(st.info.get('changed'))
    def outcome(self, st, a, obs):
        return repr((a[0], tuple(type(s).__name__ for s in st.s), obs, len(th('A').chemicals._index_cache) > 0))


UNIVERSE_4 = [(('S', 'A', 'l', 4), ('M', 'A', ('g', 'l'), 'both', 2), ('S', 'B', 'l', 2), ('S', 'C', 'g', 3))]
SYSTEMS = [Mix(), MixShared(), Split(), SepCopy(), History(),
           History('c01.history4s', universes=UNIVERSE_4, depth_q=1, depth_t=3, tcap_t=300, vector_splits=True)] + [Mix3(r, full=r in ('single-l', 'multi-gl')) for r in RECEIVERS]
