"""
C08 — bubble and dew points satisfy their equations and bracket the two-phase region.

Bounded exhaustive enumeration over (package, ordered chemical list, composition on the simplex grid incl. zero
and trace components, specification T or P) of the public entry points `BubblePoint(z, T=|P=)` and
`DewPoint(z, T=|P=)`, each result checked against the harness' own evaluation of the defining equation
(modified Raoult's law with the package's gamma / phi / pcf objects and the chemicals' Psat), plus the
relational clauses of the property (T<->P inverse, bubble/dew ordering, single component, scaling of z,
permutation of the list) and two history layers on the interned solver objects: c08.history (calls on one list with both
packages; earlier results must stay valid) and c08.intern (the interning caches as explored state: every order of the same
chemicals and both packages requested within one execution).

One transition = one clause family of one solver (bubble | dew) at one point:
  core   sum(y)=1 / sum(x)=1, residual of the defining equation, single-component shortcut, round trip
  order  T_bubble <= T_dew at P,  P_dew <= P_bubble at T (both solvers)
  scale  result for k*z equals result for z
  perm   result for every permutation of the list equals the permuted result
"""
from __future__ import annotations
import itertools, math
import numpy as np
from mc.engine import System, Violation, Rejected
from mc import fixtures as fx

PROPERTY = 'C08'
RULE = ('One transition = one clause family (core | order | scale | perm) of one solver (bubble | dew) at one point (package, ordered chemical list, '
        'composition, specified T or P).  core: the returned fractions must sum to one and satisfy the harness\' own '
        'evaluation of modified Raoult\'s law, single-component compositions must give Psat/Tsat, and '
        'solving back from the computed P (T) must return the given T (P); order: dew and bubble must be ordered.  A case is non-trivial when at least two components are '
        'present (a real iterative solve; single components take the shortcut) and the specification lies inside the property\'s '
        'domain; P-specified cases whose bubble/dew temperature lies outside 260-480 K or outside a vapour-pressure range are '
        'counted as outside-domain and not judged.')
ASSUMPTIONS = [
    'chemical lists: every subset of size 1-4 (thorough: 1-5) of (Methanol, Ethanol, Propanol, 1-Butanol), (Hexane, Heptane, Octane, Benzene, Toluene) '
    'and (Water, Ethanol, Methanol); packages: ideal (thermo.ideal()) and the default activity-coefficient package (Dortmund UNIFAC, ideal gas, no Poynting); '
    'plus Dortmund + IdealGasPoyintingCorrectionFactors on the subsets of (Water, Ethanol, Methanol)',
    'c08.grid.eos: packages with the equation-of-state based PRActivityCoefficients / SRKActivityCoefficients on the same subsets are judged ONLY by the clauses `non-physical` and `gamma-ignored`: '
    'those classes are not normalised activity coefficients (not among the models of property C16), so the defining-equation, ordering, round-trip, scale and permutation clauses would test the classes, not the '
    'bubble/dew solvers; FloatingPointError from these packages counts as rejected there',
    'c08.grid.fallback: water-rich (99 / 95 / 90 mol%) Water + Heptane | Hexane | Octane (+ Ethanol at zero) under Dortmund at 3e5, 1e6, 3e6 Pa and 300, 350 K — the region in which the solvers enter their bracketing fallback',
    'compositions: simplex grid step 1/4 incl. zero components and vertices, plus 1e-8 trace entries, plus one dominant component with a trace at 1e-17 / 1e-16 / 1e-15 in every ordered pair '
    'of positions (quick: 1e-17 and one seed-rotated other level); the list (SO2, Ethanol, Methanol) adds a volatile member without group data in every position; T in {260,300,350,400,480} K intersected with '
    'every listed chemical\'s Psat range, plus 0.5 / 5 / 10 K inside each end of that range that lies within 260-480 K (lists with Benzene, Cyclohexane, 1-Butanol, SO2); P in {5e3, 101325, 1e6, 3e6} Pa; scale k in {0.5, 2, 10, 1e-17, 1e-12, 1e6, 1e12} (quick: one seed-rotated of the first three + 1e-17 + 1e12); nothing is claimed between grid points',
    'quick tier (activity-coefficient package): core clauses on the full T and P grids; scale and permutation clauses at one seed-rotated T and one seed-rotated P '
    'with one seed-rotated k; lists of 4 are permuted by rotations and reversal only.  The ideal package and the thorough tier use the full sets.',
    'a P-specified case is judged only if the harness\' own residual changes sign between the ends of the temperature domain (the bubble/dew temperature lies inside the quantifier)',
    'the defining equation is evaluated with the package\'s own gamma/phi/pcf objects (their correctness is property C16) and Chemical.Psat',
    'the class-level interning caches (BubblePoint._cached, DewPoint._cached, the activity-coefficient classes\' _cached) are owned by the harness: emptied before every '
    'execution; reference models and fresh twins are built inside a save/clear/restore bracket.  c08.intern makes the caches explored state: within one execution the same '
    'chemicals are requested in every order (all permutations of a 2- and a 3-list) and with the ideal and the Dortmund package, every sequence of 2 (thorough: 3) requests; '
    'c08.history keeps every returned result object and re-checks all of them (bit-identical) after each later call',
    'tmo.settings\' default package is set by the harness at every build to a package that differs from the one under test; every small class-/module-level container of '
    'thermosteam._chemical and thermosteam.free_energy (besides thermosteam.equilibrium.*) is reset per execution (the cache=True chemical registry excepted)',
    'documented solver rejections (InfeasibleRegion, non-convergence RuntimeError) are counted as rejected, not judged; any other exception type is a violation',
]
TOLERANCES = {
    'fraction_sum_abs': 1e-9, 'defining_equation_residual_abs': 1e-6, 'fraction_vs_equation_abs': 1e-6,
    'roundtrip_T_K': 1e-4, 'roundtrip_T_single_component_alt (|Psat(T\')-P|, Chemical.Tsat ytol)': 2e-2, 'roundtrip_P_rel': 1e-6, 'ordering_T_K': 1e-4, 'ordering_P_rel': 1e-6,
    'single_component_Psat_rel': 1e-12, 'single_component_Tsat_K': 1e-9, 'single_component_Psat_of_Tsat_rel (P != 101325)': 1e-5,
    'scale_T_K': 1e-4, 'scale_P_rel': 1e-6, 'scale_fraction_abs': 1e-6, 'perm_T_K': 1e-4, 'perm_P_rel': 1e-6, 'perm_fraction_abs': 1e-6,
    'history_vs_fresh_rel': 1e-12, 'earlier_results_after_later_calls': 'bit-identical (T, P, fraction array of the kept result objects)',
}

FAMILIES = {
    'ALC': ('Methanol', 'Ethanol', 'Propanol', '1-Butanol'),
    'HC': ('Hexane', 'Heptane', 'Octane', 'Benzene', 'Toluene'),
    'WEM': ('Water', 'Ethanol', 'Methanol'),
    'LATE': ('Benzene', 'Cyclohexane', '1-Butanol'),   # every vapour-pressure model starts late (278.7, 279.9, 275.0 K): the vle domain's lower end is inside 260-480 K
    'NG': ('SO2', 'Ethanol', 'Methanol'),        # SO2: volatile, NO Dortmund/UNIFAC groups (gamma = 1 by the no-group rule), listed in every position by the perm clause
}
T_GRID = (260.0, 300.0, 350.0, 400.0, 480.0)
P_GRID = (5e3, 101325.0, 1e6, 3e6)
K_GRID = (0.5, 2.0, 10.0)
K_EXTREME = (1e-17, 1e-12, 1e6, 1e12)        # totals far below / above 1 ("unnormalised compositions z and k*z")
DEEP_TRACE = (1e-17, 1e-16, 1e-15)            # trace levels around machine precision
EDGE_OFFSETS = (0.5, 5.0, 10.0)               # temperatures just inside the ends of a list's common vapour-pressure range
T_LO, T_HI = 260.0, 480.0
TRACE = 1e-8

_eq = None
_exc = None
_pcf_thermos = {}

FALLBACK = [0]     # number of times the bracketing fallback of the bubble/dew solvers ran during the current call

def _load():
    global _eq, _exc
    if _eq is None:
        tmo = fx.tmo()
        _eq = tmo.equilibrium
        _exc = tmo.exceptions
        # Evidence only: count entries into the IQ-interpolation fallback (called with a start value `x`; the ideal
        # start-value search calls it with x=None).  The wrapper forwards everything unchanged.
        import flexsolve as flx
        if not getattr(flx.IQ_interpolation, '_verif_counted', False):
            orig = flx.IQ_interpolation
            def counted(f, x0, x1, y0=None, y1=None, x=None, *a, **k):
                if x is not None: FALLBACK[0] += 1
                return orig(f, x0, x1, y0, y1, x, *a, **k)
            counted._verif_counted = True
            flx.IQ_interpolation = counted
    return _eq

def _owned():
    """process-global mutable state of thermosteam.equilibrium.* (interning caches of BubblePoint / DewPoint / the model classes and
    any other small module- or class-level container): owned by the harness, see mc/systems/c16.py:OwnedGlobals"""
    _load()
    from mc.systems.c16 import OWNED
    OWNED.capture()
    return OWNED

def clear_caches():
    _owned().restore()

class isolated:
    """run a block on the import-time content of every owned container (empty interning caches) and put the explored content back
    afterwards (reference evaluations and fresh twins must neither see nor disturb the state under exploration)"""
    def __enter__(self):
        self.b = _owned().bracket(); self.b.__enter__()
    def __exit__(self, *exc):
        return self.b.__exit__(*exc)

def _thermo(pkg, ids):
    _load()
    if pkg == 'ideal': return fx.custom_thermo(ids, ideal=True)
    if pkg == 'dortmund': return fx.custom_thermo(ids)
    if pkg == 'dortmund+pcf':
        key = tuple(ids)
        if key not in _pcf_thermos:
            tmo = fx.tmo()
            base = fx.custom_thermo(ids)
            _pcf_thermos[key] = tmo.Thermo(base.chemicals, PCF=_eq.IdealGasPoyintingCorrectionFactors)
        return _pcf_thermos[key]
    if pkg in ('pr', 'srk'):      # equation-of-state based activity-coefficient classes
        key = (pkg,) + tuple(ids)
        if key not in _pcf_thermos:
            tmo = fx.tmo()
            from thermosteam.equilibrium import activity_coefficients as ac
            base = fx.custom_thermo(ids)
            _pcf_thermos[key] = tmo.Thermo(base.chemicals, Gamma=ac.PRActivityCoefficients if pkg == 'pr' else ac.SRKActivityCoefficients)
        return _pcf_thermos[key]
    raise ValueError(pkg)

def set_default_package(pkg, ids):
    """tmo.settings' process-wide default package is owned by the harness: during an execution it is a package that DIFFERS from the
    one under test (ideal when an activity-coefficient package is tested, Dortmund otherwise), so that a solver that silently falls
    back to the default instead of the package it was created for cannot give the right answer by accident"""
    other = 'dortmund' if pkg == 'ideal' else 'ideal'
    fx.tmo().settings.set_thermo(_thermo(other, sorted_ids(ids)))

def _chems(ids):
    return tuple(fx.chemical(i) for i in ids)

def lists(tier):
    sizes = (1, 2, 3, 4) if tier == 'quick' else (1, 2, 3, 4, 5)
    out = []
    for fam in FAMILIES.values():
        for n in sizes:
            for s in itertools.combinations(fam, n): out.append(tuple(s))
    return list(dict.fromkeys(out))

def domain(chems):
    lo = max([T_LO] + [c.Psat.Tmin for c in chems])
    hi = min([T_HI] + [c.Psat.Tmax for c in chems])
    return lo, hi

def simplex(n, den=4):
    out = []
    def rec(prefix, left, slots):
        if slots == 1:
            out.append(tuple(prefix + [left])); return
        for k in range(left, -1, -1): rec(prefix + [k], left - k, slots - 1)
    rec([], den, n)
    return [tuple(k / den for k in p) for p in out]

def trace_points(n):
    """compositions with one component at trace level: vertex + trace, binary mid-point + trace"""
    pts = []
    if n >= 2:
        for i in range(n):
            j = (i + 1) % n
            x = [0.0] * n; x[i] = 1.0 - TRACE; x[j] = TRACE
            pts.append(tuple(x))
    if n >= 3:
        for i in range(n):
            j = (i + 1) % n; k = (i + 2) % n
            x = [0.0] * n; x[i] = 0.5; x[j] = 0.5 - TRACE; x[k] = TRACE
            pts.append(tuple(x))
    return pts

def deep_trace_points(n, levels):
    """one dominant component and one component at a trace level around machine precision, in EVERY ordered pair of positions"""
    pts = []
    for lv in levels:
        for i in range(n):
            for j in range(n):
                if i == j: continue
                x = [0.0] * n; x[i] = 1.0 - lv; x[j] = lv
                pts.append(tuple(x))
    return pts

def compositions(n, levels=()):
    return simplex(n) + trace_points(n) + (deep_trace_points(n, levels) if n >= 2 else [])

# ---- the harness' own evaluation of the defining equations -------------------------------------------------

class Model:
    """gamma/phi/pcf/Psat of one (package, ordered list) — evaluation only, no solver from the library"""
    def __init__(self, pkg, ids):
        self.pkg, self.ids = pkg, tuple(ids)
        self.chems = _chems(ids)
        self.thermo = _thermo(pkg, sorted_ids(ids))
        th = self.thermo
        with isolated():     # the reference model objects are built for exactly this order, whatever has been interned before
            self.gamma = th.Gamma(self.chems); self.phi = th.Phi(self.chems); self.pcf = th.PCF(self.chems)
        self.lo, self.hi = domain(self.chems)

    def psats(self, T): return np.array([c.Psat(T) for c in self.chems], float)

    def bubble_y(self, zn, T, P, y=None):
        """y_i implied by modified Raoult's law at (T, P) for liquid zn"""
        Ps = self.psats(T)
        num = zn * np.asarray(self.gamma(zn.copy(), T), float) * Ps * np.asarray(self.pcf(T, P, Ps), float)
        yy = num / P if y is None else y
        for _ in range(1 if type(self.phi).__name__ == 'IdealFugacityCoefficients' else 50):
            s = yy.sum()
            phi = np.asarray(self.phi(yy / s if s > 0 else yy, T, P), float)
            new = num / (phi * P)
            if np.max(np.abs(new - yy)) < 1e-14: yy = new; break
            yy = new
        return yy

    def dew_x(self, zn, T, P, x):
        """x_i implied by modified Raoult's law at (T, P) for vapour zn, with gamma evaluated at the liquid x"""
        Ps = self.psats(T)
        a = zn * np.asarray(self.phi(zn.copy(), T, P), float) * P / (Ps * np.asarray(self.pcf(T, P, Ps), float))
        s = x.sum()
        g = np.asarray(self.gamma((x / s).copy(), T), float)
        return a / g

    def dew_x_solve(self, zn, T, P):
        """solve x*gamma(x) = a by (damped) successive substitution; None if it does not settle"""
        Ps = self.psats(T)
        a = zn * np.asarray(self.phi(zn.copy(), T, P), float) * P / (Ps * np.asarray(self.pcf(T, P, Ps), float))
        x = a.copy()
        if x.sum() <= 0: return None
        w = 1.0
        last = np.inf
        for it in range(400):
            g = np.asarray(self.gamma(x / x.sum(), T), float)
            new = a / g
            err = float(np.max(np.abs(new - x)))
            if err < 1e-12 * max(1.0, x.sum()): return new
            if err > last: w = max(0.1, w * 0.5)
            last = err
            x = (1 - w) * x + w * new
        return None

    def bubble_in_domain(self, zn, P):
        fl = self.bubble_y(zn, self.lo, P).sum() - 1.0
        fh = self.bubble_y(zn, self.hi, P).sum() - 1.0
        return fl <= 0.0 <= fh

    def dew_in_domain(self, zn, P):
        xl = self.dew_x_solve(zn, self.lo, P); xh = self.dew_x_solve(zn, self.hi, P)
        if xl is None or xh is None: return None
        return (xl.sum() - 1.0) >= 0.0 >= (xh.sum() - 1.0)

def sorted_ids(ids):
    """the Thermo object only supplies the model classes; one per unordered set is enough"""
    return tuple(sorted(ids))

_models = {}
def model(pkg, ids):
    k = (pkg, tuple(ids))
    if k not in _models: _models[k] = Model(pkg, ids)
    return _models[k]

# ---- calling the library ---------------------------------------------------------------------------------

def solve(m, kind, spec, z, val, raw=False):
    """BubblePoint/DewPoint(z, T=|P=) through the public entry point (the solver object is requested from the class every
    time, i.e. through its interning cache).  Returns (T, P, fractions) — with raw=True additionally the result object itself."""
    eq = _load()
    cls = eq.BubblePoint if kind == 'bubble' else eq.DewPoint
    try:
        obj = cls(m.chems, m.thermo)
        r = obj(np.array(z, float), **{spec: val})
        frac = np.array(r.y if kind == 'bubble' else r.x, float)
        if raw: return float(r.T), float(r.P), frac, r
        return float(r.T), float(r.P), frac
    except _exc.InfeasibleRegion as e:
        raise Rejected(f'{kind}:{spec}:InfeasibleRegion', cut=False)
    except RuntimeError as e:
        raise Rejected(f'{kind}:{spec}:RuntimeError', cut=False)
    except Exception as e:
        raise Violation('unexpected-exception', f'{cls.__name__}{m.ids}({list(z)}, {spec}={val}) [{m.pkg}]: {type(e).__name__}: {e}',
                        match=dict(exc=type(e).__name__, kind=kind, spec=spec, pkg=m.pkg))

def npos(z): return sum(1 for v in z if v > 0)

def rel(a, b):
    """|a/b - 1| that never raises (flexsolve switches numpy to divide/invalid='raise' process-wide; a broken solver may return 0 or nan)"""
    try:
        a = float(a); b = float(b)
        if not (math.isfinite(a) and math.isfinite(b)) or b == 0.0: return float('inf')
        return abs(a / b - 1.0)
    except Exception:
        return float('inf')

def zclass(z):
    n = npos(z)
    tr = any(0 < v <= 1e-6 for v in z)
    return ('single' if n == 1 else 'multi') + ('+zero' if n < len(z) else '') + ('+trace' if tr else '')


class Grid(System):
    """depth-1 enumeration; config = (pkg, ids, spec, val, flags)"""
    nontrivial_per_config = True

    def __init__(self, name, pkgs, full_in_quick=False, families=None):
        self.name = name
        self.pkgs = pkgs
        self.full_in_quick = full_in_quick
        self.families = families

    def warm(self):
        _load()
        for fam in FAMILIES.values():
            for i in fam: fx.chemical(i)

    def depth(self, tier): return 1
    def reset_globals(self): clear_caches()      # every execution starts with empty interning caches

    def _lists(self, tier):
        ls = lists(tier)
        if self.families:
            allowed = [set(FAMILIES[f]) for f in self.families]
            ls = [l for l in ls if any(set(l) <= a for a in allowed)]
        return ls

    def configs(self, tier, seed):
        full = tier == 'thorough' or self.full_in_quick
        cfgs = []
        if full:
            Ts, Ps, ks = T_GRID, P_GRID, K_GRID + K_EXTREME
            relT, relP = set(T_GRID), set(P_GRID)
            levels = DEEP_TRACE
        else:
            Ts, Ps = T_GRID, P_GRID
            ks = (K_GRID[seed % 3], K_EXTREME[0], K_EXTREME[3])
            levels = (DEEP_TRACE[0], DEEP_TRACE[1 + seed % 2])
            relT = {(350.0, 300.0, 400.0)[seed % 3]}; relP = {(101325.0, 1e6, 5e3, 3e6)[seed % 4]}
        for pkg in self.pkgs:
            for ids in self._lists(tier):
                lo, hi = domain(_chems(ids))
                # the ends of the common Psat range, when they lie inside 260-480 K, are sampled from just inside
                edge = [lo + d for d in EDGE_OFFSETS if lo > T_LO] + [hi - d for d in EDGE_OFFSETS if hi < T_HI]
                if not full: edge = [t for t, d in zip(edge, EDGE_OFFSETS * 2) if d != EDGE_OFFSETS[1 + seed % 2]] if len(ids) >= 4 else edge
                for T in list(Ts) + [round(t, 6) for t in edge if lo <= t <= hi]:
                    if lo <= T <= hi:
                        cfgs.append((pkg, ids, 'T', T, T in relT, tuple(ks), full, tuple(levels)))
                for P in Ps:
                    cfgs.append((pkg, ids, 'P', P, P in relP, tuple(ks), full, tuple(levels)))
        # the engine hands contiguous slices to the workers: interleave heavy (long lists) and light configurations
        cfgs.sort(key=lambda c: (-len(c[1]), c[0], c[1], c[2], c[3]))
        B = 97
        return [c for b in range(B) for c in cfgs[b::B]]

    def describe(self, tier):
        ls = self._lists(tier)
        return dict(packages=list(self.pkgs), chemical_lists=len(ls), list_sizes=sorted({len(l) for l in ls}))

    def build(self, config):
        pkg, ids, spec, val, rel, ks, full, *rest = config        # (older witness files have no trace-level field)
        st = type('St', (), {})()
        st.m = model(pkg, ids)
        set_default_package(pkg, ids)
        st.spec, st.val, st.rel, st.ks, st.full = spec, val, rel, ks, full
        st.levels = tuple(rest[0]) if rest else ()
        st.tag = None
        return st

    def canon(self, st): return ('grid', st.m.pkg, st.m.ids, st.spec, st.val)

    def actions(self, st):
        n = len(st.m.ids)
        acts = []
        zs = self._zs(st)
        for kind in ('bubble', 'dew'):
            for z in zs: acts.append(('core', kind, z))
        for z in zs: acts.append(('order', z))
        if st.rel:
            for kind in ('bubble', 'dew'):
                for z in zs:
                    for k in st.ks: acts.append(('scale', kind, z, k))
                if n >= 2:
                    for z in zs: acts.append(('perm', kind, z))
        return acts

    def _zs(self, st):
        return compositions(len(st.m.ids), st.levels)

    def _perms(self, st):
        n = len(st.m.ids)
        allp = list(itertools.permutations(range(n)))[1:]
        if st.full or n <= 3: return allp
        rot = [tuple((i + r) % n for i in range(n)) for r in range(1, n)]
        return rot + [tuple(reversed(range(n)))]

    # -- domain of one (kind, z) at this state's specification -------------------------------------------------
    def _in_domain(self, st, kind, zn):
        m = st.m
        if st.spec == 'T': return True
        P = st.val
        if npos(zn) == 1:
            c = m.chems[int(np.argmax(zn))]
            return bool(c.Psat(m.lo) <= P <= c.Psat(m.hi))
        with np.errstate(all='ignore'):
            if kind == 'bubble': return m.bubble_in_domain(zn, P)
            return m.dew_in_domain(zn, P)

    def step(self, st, a):
        m = st.m; spec, val = st.spec, st.val
        st.tag = None
        FALLBACK[0] = 0
        clause = a[0]; z = a[1] if clause == 'order' else a[2]
        za = np.array(z, float); zn = za / za.sum()
        if clause == 'core':
            return self._core(st, z, zn, (a[1],), False)
        if clause == 'order':
            return self._core(st, z, zn, ('bubble', 'dew'), True)
        if clause == 'scale':
            return self._scale(st, a[1], z, zn, a[3])
        if clause == 'perm':
            return self._perm(st, a[1], z, zn)
        raise ValueError(a)

    def _match(self, st, kind, z, **kw):
        d = dict(kind=kind, spec=st.spec, pkg=st.m.pkg); d.update(kw); return d

    def _core(self, st, z, zn, kinds, order):
        """order=False: the single-kind clauses (normalisation, defining equation, single component, inverse relation);
        order=True: only the bubble/dew ordering (both solvers; judged when both lie inside the domain)"""
        m = st.m; spec, val = st.spec, st.val
        n1 = npos(z) == 1
        res = {}
        judged = []
        for kind in kinds:
            ind = self._in_domain(st, kind, zn)
            if not ind:                   # False or None (undetermined)
                if order: break
                continue
            T, P, f = solve(m, kind, spec, z, val)
            res[kind] = (T, P, f)
            judged.append(kind)
            if order: continue
            who = f'{"BubblePoint" if kind == "bubble" else "DewPoint"}{m.ids}({list(z)}, {spec}={val}) [{m.pkg}]'
            given = T if spec == 'T' else P
            if given != val:
                raise Violation('specification-not-returned', f'{who}: returned {spec}={given!r}', match=self._match(st, kind, z))
            if not (np.all(np.isfinite(f)) and math.isfinite(T) and math.isfinite(P) and np.all(f >= 0)):
                raise Violation('non-finite', f'{who}: T={T}, P={P}, fractions={f.tolist()}', match=self._match(st, kind, z, zclass=zclass(z)))
            if not (T > 0 and P > 0):
                raise Violation('non-physical', f'{who}: returned T={T!r} K, P={P!r} Pa', match=self._match(st, kind, z))
            if not abs(f.sum() - 1.0) <= 1e-9:
                raise Violation('fractions-not-normalised', f'{who}: fractions sum to {f.sum()!r}', match=self._match(st, kind, z), residual=abs(f.sum() - 1))
            if spec == 'P' and not (m.lo - 1e-6 <= T <= m.hi + 1e-6):
                raise Violation('residual', f'{who}: returned T={T} although the defining equation has its root inside [{m.lo}, {m.hi}]',
                                match=self._match(st, kind, z, zclass=zclass(z)), residual=1.0)
            if n1:
                i = int(np.argmax(zn)); c = m.chems[i]
                unit = np.zeros(len(z)); unit[i] = 1.0
                if not np.array_equal(f, unit):
                    raise Violation('single-component', f'{who}: fractions {f.tolist()}', match=self._match(st, kind, z))
                if spec == 'T':
                    ref = float(c.Psat(val))
                    if not rel(P, ref) <= 1e-12:
                        raise Violation('single-component', f'{who}: P={P!r}, Psat_{c.ID}({val})={ref!r}', match=self._match(st, kind, z), residual=rel(P, ref))
                else:
                    ref = float(c.Tsat(val, check_validity=False))
                    if not abs(T - ref) <= 1e-9:
                        raise Violation('single-component', f'{who}: T={T!r}, Tsat_{c.ID}({val})={ref!r}', match=self._match(st, kind, z), residual=abs(T - ref))
                    back = float(c.Psat(T))
                    tol = 2e-2 if val == 101325.0 else 1e-5      # Tsat(101325) is the tabulated normal boiling point
                    if not rel(back, val) <= tol:
                        raise Violation('single-component', f'{who}: Psat_{c.ID}(T={T}) = {back}, not {val}', match=self._match(st, kind, z), residual=rel(back, val))
            else:
                with np.errstate(all='ignore'):      # the harness' own arithmetic must not raise
                    if kind == 'bubble':
                        ref = m.bubble_y(zn, T, P, y=f.copy())
                    else:
                        ref = m.dew_x(zn, T, P, f)
                    r_sum = abs(ref.sum() - 1.0); r_frac = float(np.max(np.abs(ref - f)))
                self._gamma_ignored(st, kind, z, zn, T, P, f, who)
                if not (r_sum <= 1e-6 and r_frac <= 1e-6):
                    raise Violation('residual', f'{who}: T={T}, P={P}, returned fractions {f.tolist()}; modified Raoult\'s law gives {ref.tolist()} '
                                    f'(sum {ref.sum()!r})', match=self._match(st, kind, z, zclass=zclass(z)), residual=max(r_sum, r_frac))
        if not judged or (order and len(judged) < 2):
            st.tag = 'outside'
            return ('outside-domain', zclass(z))
        # ordering
        if order:
            (Tb, Pb, _), (Td, Pd, _) = res['bubble'], res['dew']
            if spec == 'T':
                if not Pd <= Pb * (1 + 1e-6):
                    raise Violation('ordering', f'{m.ids} z={list(z)} T={val} [{m.pkg}]: P_dew={Pd!r} > P_bubble={Pb!r}',
                                    match=dict(spec=spec, pkg=m.pkg), residual=rel(Pd, Pb))
            else:
                if not Tb <= Td + 1e-4:
                    raise Violation('ordering', f'{m.ids} z={list(z)} P={val} [{m.pkg}]: T_bubble={Tb!r} > T_dew={Td!r}',
                                    match=dict(spec=spec, pkg=m.pkg), residual=Tb - Td)
            if n1:
                same = rel(Pd, Pb) <= 1e-12 if spec == 'T' else abs(Tb - Td) <= 1e-9
                if not same:
                    raise Violation('single-component', f'{m.ids} z={list(z)} {spec}={val}: bubble {res["bubble"][:2]} and dew {res["dew"][:2]} differ',
                                    match=dict(kind='both', spec=spec, pkg=m.pkg))
            st.tag = 'single' if n1 else 'multi'
            return ('ordered', zclass(z))
        # inverse relation
        other = 'P' if spec == 'T' else 'T'
        for kind in judged:
            T, P, f = res[kind]
            mid = P if spec == 'T' else T
            T2, P2, f2 = solve(m, kind, other, z, mid)
            back = T2 if spec == 'T' else P2
            err = abs(back - val) if spec == 'T' else rel(back, val)
            tol = 1e-4 if spec == 'T' else 1e-6
            ok = err <= tol
            point = 'grid'
            if n1:
                c = m.chems[int(np.argmax(zn))]
                if spec == 'T' and not ok:
                    # Chemical.Tsat states ytol = 1e-2 Pa: at low pressure that, not 1e-4 K, is its resolution
                    ok = abs(float(c.Psat(back)) - mid) <= 2e-2
                if spec == 'P' and val == 101325.0: point = 'single@101325(Tb)'
                if spec == 'T' and mid == 101325.0: point = 'single@101325(Tb)'
            if not ok:
                raise Violation('round-trip', f'{kind}{m.ids} z={list(z)} [{m.pkg}]: {spec}={val} -> {other}={mid!r} -> {spec}={back!r}',
                                match=self._match(st, kind, z, zclass=zclass(z), point=point), residual=err)
        st.tag = 'single' if n1 else 'multi'
        return ('ok', zclass(z), tuple(judged))

    def _gamma_ignored(self, st, kind, z, zn, T, P, f, who):
        """the package's activity coefficients must take part: a result that coincides with the ideal package's although the package's
        gamma at the liquid composition is far from one (sum x_i |gamma_i - 1| > 1e-2) cannot satisfy the defining equation"""
        m = st.m; spec, val = st.spec, st.val
        if m.pkg == 'ideal': return
        with np.errstate(all='ignore'):
            xl = zn if kind == 'bubble' else f / f.sum()
            try:
                with isolated():      # a FRESH model instance: the EOS-based classes remember their last state (first evaluation != later ones at x = 0)
                    g = np.asarray(m.thermo.Gamma(m.chems)(np.array(xl, float), T), float)
            except Exception: return
            far = bool(float(np.dot(np.asarray(xl, float), np.abs(g - 1.0))) > 1e-2)      # mole-weighted: a trace component does not count
        if not far: return
        try: Ti, Pi, fi = solve(model('ideal', m.ids), kind, spec, z, val)
        except (Rejected, Violation): return
        if rel(T, Ti) <= 1e-9 and rel(P, Pi) <= 1e-9:
            raise Violation('gamma-ignored', f'{who}: T={T}, P={P} is exactly the ideal-package result although gamma({np.asarray(xl).tolist()}, T) = {g.tolist()}',
                            match=self._match(st, kind, z))

    def _compare(self, st, kind, what, base, other, label, z, extra):
        T0, P0, f0 = base; T1, P1, f1 = other
        spec = st.spec
        if spec == 'T':
            err = rel(P1, P0); bad = not err <= 1e-6
        else:
            err = abs(T1 - T0); bad = not err <= 1e-4
        ferr = float(np.max(np.abs(f1 - f0)))
        if bad or not ferr <= 1e-6:
            raise Violation(what, f'{kind}{st.m.ids} z={list(z)} {spec}={st.val} [{st.m.pkg}]: T={T0!r} P={P0!r} fractions={f0.tolist()}; {label}: '
                            f'T={T1!r} P={P1!r} fractions={f1.tolist()}', match=self._match(st, kind, z, **extra), residual=max(err, ferr))

    def _scale(self, st, kind, z, zn, k):
        m = st.m
        kz = tuple(k * v for v in z)
        judged = 0
        for kind in (kind,):
            if not self._in_domain(st, kind, zn): continue
            base = solve(m, kind, st.spec, z, st.val)
            sc = solve(m, kind, st.spec, kz, st.val)
            judged += 1
            self._compare(st, kind, 'scale-dependent', base, sc, f'for {k}*z', z, dict(single=npos(z) == 1))
        if not judged:
            st.tag = 'outside'; return ('outside-domain', zclass(z))
        st.tag = 'single' if npos(z) == 1 else 'multi'
        return ('ok', zclass(z), judged)

    def _perm(self, st, kind, z, zn):
        m = st.m
        judged = 0
        for kind in (kind,):
            if not self._in_domain(st, kind, zn): continue
            base = solve(m, kind, st.spec, z, st.val)
            judged += 1
            for p in self._perms(st):
                pm = model(m.pkg, tuple(m.ids[i] for i in p))
                T1, P1, f1 = solve(pm, kind, st.spec, tuple(z[i] for i in p), st.val)
                inv = np.empty(len(p)); inv[list(p)] = f1       # back to the base order
                self._compare(st, kind, 'permutation-dependent', base, (T1, P1, inv), f'for the list {pm.ids}', z, {})
        if not judged:
            st.tag = 'outside'; return ('outside-domain', zclass(z))
        st.tag = 'single' if npos(z) == 1 else 'multi'
        return ('ok', zclass(z), judged)

    def nontrivial(self, st, a, obs): return st.tag == 'multi'
    def outcome(self, st, a, obs):
        return repr((a[0], st.m.pkg, len(st.m.ids), st.spec, obs, 'bracketing-fallback' if FALLBACK[0] else 'secant'))


# ---- history layers ------------------------------------------------------------------------------------------

def judge(m, kind, spec, val, z, T, P, f, where=''):
    """grid oracles for one returned result (normalisation, defining equation / single component) — raises Violation"""
    who = f'{"BubblePoint" if kind == "bubble" else "DewPoint"}{m.ids}({list(z)}, {spec}={val}) [{m.pkg}]{where}'
    mt = dict(kind=kind, spec=spec, pkg=m.pkg)
    given = T if spec == 'T' else P
    if given != val:
        raise Violation('specification-not-returned', f'{who}: returned {spec}={given!r}', match=mt)
    if not (np.all(np.isfinite(f)) and math.isfinite(T) and math.isfinite(P) and np.all(f >= 0) and f.shape == (len(z),)):
        raise Violation('non-finite', f'{who}: T={T}, P={P}, fractions={f.tolist()}', match=dict(mt, zclass=zclass(z)))
    if not abs(f.sum() - 1.0) <= 1e-9:
        raise Violation('fractions-not-normalised', f'{who}: fractions sum to {f.sum()!r}', match=mt, residual=abs(f.sum() - 1))
    za = np.array(z, float); zn = za / za.sum()
    if npos(z) == 1:
        i = int(np.argmax(zn)); c = m.chems[i]
        unit = np.zeros(len(z)); unit[i] = 1.0
        # Psat(T_returned) == P is evaluated by the harness itself (a comparison with Chemical.Tsat would share a memo with it);
        # at exactly 101325 Pa Tsat is the tabulated boiling point (listed finding), hence the wide tolerance there only
        ok = np.array_equal(f, unit) and (rel(P, float(c.Psat(T))) <= (1e-12 if spec == 'T' else (2e-2 if val == 101325.0 else 1e-5)))
        if not ok:
            raise Violation('single-component', f'{who}: T={T!r} P={P!r} fractions {f.tolist()} (Psat_{c.ID}(T)={float(c.Psat(T))!r})', match=mt)
        return
    with np.errstate(all='ignore'):
        ref = m.bubble_y(zn, T, P, y=f.copy()) if kind == 'bubble' else m.dew_x(zn, T, P, f)
        r_sum = abs(ref.sum() - 1.0); r_frac = float(np.max(np.abs(ref - f)))
    if not (r_sum <= 1e-6 and r_frac <= 1e-6):
        raise Violation('residual', f'{who}: T={T}, P={P}, returned fractions {f.tolist()}; modified Raoult\'s law gives {ref.tolist()} '
                        f'(sum {ref.sum()!r})', match=dict(mt, zclass=zclass(z)), residual=max(r_sum, r_frac))


def twin(m, kind, spec, z, val):
    """the same call on freshly constructed objects (empty interning caches), without disturbing the explored caches"""
    with isolated():
        return solve(m, kind, spec, z, val)


def cache_digest():
    """the explored interning state: which solver objects exist under which key, what they are (order of their chemicals,
    model classes) and every array they hold (a per-instance work buffer would show up here)"""
    eq = _load()
    out = []
    for cls in (eq.BubblePoint, eq.DewPoint):
        for key, o in cls._cached.items():
            arrays = []
            for sl in getattr(type(o), '__slots__', ()):
                v = getattr(o, sl, None)
                if isinstance(v, np.ndarray): arrays.append((sl, tuple(fx.r12(x) for x in v.ravel())))
            out.append((cls.__name__, tuple(getattr(o, 'IDs', ())), type(o.gamma).__name__, type(o.phi).__name__, type(o.pcf).__name__,
                        tuple(getattr(c, 'ID', '?') for c in getattr(o.gamma, 'chemicals', ())), tuple(arrays)))
    return tuple(sorted(out, key=repr))


class History(System):
    """Calls on ONE ordered list through the interned solver objects of the ideal AND the activity-coefficient package (same
    chemical tuple, different cache keys; nothing / ideal first / Dortmund first constructed at build).  Oracles per call:
    the grid oracles on the new result, equality with a freshly constructed twin, and **every result returned earlier in
    the history is still what it was** (same T, P and bit-identical fraction array — the result objects are kept, not copied)."""
    name = 'c08.history'
    nontrivial_per_config = True
    LISTS = [('Water', 'Ethanol', 'Methanol'), ('Hexane', 'Benzene')]
    # two DIFFERENT pure components per list: single-component solves of chemical A then chemical B at the same P (and B then A)
    ZS = {3: [(0.5, 0.25, 0.25), (0.0, 0.75, 0.25), (1.0, 0.0, 0.0), (0.0, 1.0, 0.0)], 2: [(0.25, 0.75), (0.0, 1.0), (1.0, 0.0)]}
    SPECS = [('T', 300.0), ('T', 400.0), ('P', 101325.0), ('P', 1e6)]
    PKGS = ('ideal', 'dortmund')

    def warm(self): Grid.warm(self)
    def depth(self, tier): return 2          # every kept result makes a history a distinct state: the full alphabet is paired exhaustively in both tiers
    def reset_globals(self): clear_caches()

    def configs(self, tier, seed):
        return [(ids, order) for ids in self.LISTS for order in ('lazy', 'ideal-first', 'dortmund-first')]

    def build(self, config):
        ids, order = config
        eq = _load()
        st = type('St', (), {})()
        st.ids = ids
        st.ms = {p: model(p, ids) for p in self.PKGS}
        fx.tmo().settings.set_thermo(_thermo('dortmund+pcf', sorted_ids(ids)))     # a default package that is none of the packages under test
        pk = {'lazy': (), 'ideal-first': ('ideal', 'dortmund'), 'dortmund-first': ('dortmund', 'ideal')}[order]
        pk = tuple(p for p in pk if p in self.PKGS)
        st.objs = {}
        for p in pk:
            m = st.ms[p]
            st.objs[(p, 'bubble')] = eq.BubblePoint(m.chems, m.thermo)
            st.objs[(p, 'dew')] = eq.DewPoint(m.chems, m.thermo)
        st.calls = ()
        st.held = []          # (action, result object, T, P, snapshot of the fraction array)
        st.tag = None
        return st

    def canon(self, st):
        from thermosteam.equilibrium import activity_coefficients as ac
        gps = tuple(sorted((tuple(c.ID for c in k), tuple(fx.r12(v) for v in np.asarray(g._group_psis).ravel()))
                           for k, g in ac.DortmundActivityCoefficients._cached.items() if isinstance(k, tuple)))
        held = tuple((a, fx.r12(T), fx.r12(P), tuple(fx.r12(v) for v in snap)) for a, r, T, P, snap in st.held)
        return (st.ids, cache_digest(), gps, held, _owned().digest())

    def invariants(self, st):
        eq = _load()
        out = []
        for (p, kind), o in st.objs.items():
            m = st.ms[p]
            cls = eq.BubblePoint if kind == 'bubble' else eq.DewPoint
            if cls(m.chems, m.thermo) is not o:
                out.append(Violation('not-interned', f'{cls.__name__}{st.ids} [{p}] is constructed anew although an instance exists', match=dict(kind=kind)))
            want = 'IdealActivityCoefficients' if p == 'ideal' else 'DortmundActivityCoefficients'
            if type(o.gamma).__name__ != want:
                out.append(Violation('wrong-package', f'{cls.__name__}{st.ids} of the {p} package uses {type(o.gamma).__name__}', match=dict(kind=kind, pkg=p)))
        return out

    def actions(self, st):
        n = len(st.ids)
        return [(p, kind, spec, val, zi) for p in self.PKGS for kind in ('bubble', 'dew') for (spec, val) in self.SPECS
                for zi in range(len(self.ZS[n]))]

    def _held_check(self, st):
        for a, r, T, P, snap in st.held:
            kind = a[1]
            arr = np.asarray(r.y if kind == 'bubble' else r.x, float)
            same = float(r.T) == T and float(r.P) == P and arr.shape == snap.shape and arr.tobytes() == snap.tobytes()
            if not same:
                raise Violation('result-overwritten', f'{kind}{st.ids} [{a[0]}]: the result returned by {a} was T={T!r} P={P!r} {snap.tolist()}; after the later call '
                                f'{st.calls[-1]} the same result object reads T={float(r.T)!r} P={float(r.P)!r} {arr.tolist()}', match=dict(kind=kind, pkg=a[0]))

    def step(self, st, a):
        p, kind, spec, val, zi = a
        m = st.ms[p]
        z = self.ZS[len(st.ids)][zi]
        T, P, f, r = solve(m, kind, spec, z, val, raw=True)
        st.calls = st.calls + (a,)
        st.tag = 'multi' if npos(z) > 1 else 'single'
        self._held_check(st)                       # earlier results first: they were right when they were returned
        st.held.append((a, r, T, P, f.copy()))
        judge(m, kind, spec, val, z, T, P, f, where=f' after {list(st.calls[:-1])}')
        T2, P2, f2 = twin(m, kind, spec, z, val)
        self._held_check(st)
        ok = rel(T, T2) <= 1e-12 and rel(P, P2) <= 1e-12 and f.shape == f2.shape and np.allclose(f, f2, rtol=1e-12, atol=1e-15)
        if not ok:
            raise Violation('history-dependent', f'{kind}{st.ids}({list(z)}, {spec}={val}) [{p}] after {list(st.calls[:-1])}: T={T!r} P={P!r} {f.tolist()}; '
                            f'fresh object: T={T2!r} P={P2!r} {f2.tolist()}', match=dict(kind=kind, spec=spec, pkg=p))
        return ('same', kind, spec, zclass(z))

    def nontrivial(self, st, a, obs): return st.tag == 'multi' and len(st.held) >= 2
    def outcome(self, st, a, obs): return repr((a[0], obs, min(len(st.held), 3)))


class HistoryDeep(History):
    """thorough only: all triples of calls over a reduced alphabet (2 specifications x 2 compositions x both packages x both solvers)"""
    name = 'c08.history.deep'
    ZS = {3: [(0.5, 0.25, 0.25), (0.0, 0.75, 0.25)], 2: [(0.25, 0.75), (0.75, 0.25)]}
    SPECS = [('T', 300.0), ('P', 1e6)]
    def depth(self, tier): return 3
    def configs(self, tier, seed):
        return History.configs(self, tier, seed) if tier == 'thorough' else []     # its depth-2 prefix is a subset of c08.history


class HistoryLLE(History):
    """a partially miscible pair under the activity-coefficient package: consecutive dew/bubble calls whose solutions lie on different
    liquid branches (water-rich, hydrocarbon-rich, in between) on the same interned solver, each compared with a fresh solver; results
    returned earlier must stay what they were.  The defining-equation oracle is applied as well."""
    name = 'c08.history.lle'
    LISTS = [('Water', 'Toluene')]
    ZS = {2: [(0.97, 0.03), (0.1, 0.9), (0.5, 0.5)]}
    SPECS = [('P', 50000.0), ('P', 101325.0), ('T', 350.0)]
    PKGS = ('dortmund',)
    def configs(self, tier, seed): return [(ids, 'lazy') for ids in self.LISTS]


class Intern(System):
    """The interning caches as explored state: within ONE execution (caches emptied at build) the same chemicals are requested in
    every order and with both packages, in every sequence up to the depth bound; every call is judged with the grid oracles for the
    order and package that was REQUESTED and compared with a freshly constructed twin."""
    name = 'c08.intern'
    nontrivial_per_config = True
    LISTS = [('Water', 'Ethanol', 'Methanol'), ('Hexane', 'Benzene')]
    # asymmetric compositions (in the base order), one with a zero component
    POINTS = {3: [('T', 350.0, (0.5, 0.25, 0.25)), ('P', 101325.0, (0.0, 0.75, 0.25))], 2: [('T', 350.0, (0.25, 0.75)), ('P', 101325.0, (0.75, 0.25))]}

    def warm(self): Grid.warm(self)
    def depth(self, tier): return 2 if tier == 'quick' else 3
    def reset_globals(self): clear_caches()
    def configs(self, tier, seed): return [(ids,) for ids in self.LISTS]

    def build(self, config):
        st = type('St', (), {})()
        st.ids = config[0]
        fx.tmo().settings.set_thermo(_thermo('dortmund+pcf', sorted_ids(st.ids)))
        st.perms = list(itertools.permutations(range(len(st.ids))))
        st.calls = ()
        st.tag = None
        return st

    def canon(self, st):
        return (st.ids, cache_digest(), _owned().digest())

    def actions(self, st):
        return [(p, pi, kind, si) for p in ('ideal', 'dortmund') for pi in range(len(st.perms)) for kind in ('bubble', 'dew')
                for si in range(len(self.POINTS[len(st.ids)]))]

    def step(self, st, a):
        p, pi, kind, si = a
        perm = st.perms[pi]
        ids = tuple(st.ids[i] for i in perm)
        spec, val, zb = self.POINTS[len(st.ids)][si]
        z = tuple(zb[i] for i in perm)
        m = model(p, ids)
        T, P, f = solve(m, kind, spec, z, val)
        st.calls = st.calls + (a,)
        st.tag = 'multi' if len(st.calls) >= 2 else 'first'
        where = f' requested after {[ (c[0], tuple(st.ids[i] for i in st.perms[c[1]]), c[2]) for c in st.calls[:-1]]}'
        judge(m, kind, spec, val, z, T, P, f, where=where)
        T2, P2, f2 = twin(m, kind, spec, z, val)
        ok = rel(T, T2) <= 1e-12 and rel(P, P2) <= 1e-12 and f.shape == f2.shape and np.allclose(f, f2, rtol=1e-12, atol=1e-15)
        if not ok:
            raise Violation('history-dependent', f'{kind}{ids}({list(z)}, {spec}={val}) [{p}]{where}: T={T!r} P={P!r} {f.tolist()}; '
                            f'fresh object: T={T2!r} P={P2!r} {f2.tolist()}', match=dict(kind=kind, spec=spec, pkg=p))
        return ('same', kind, spec, p, 'permuted' if pi else 'base')

    def nontrivial(self, st, a, obs): return st.tag == 'multi'
    def outcome(self, st, a, obs): return repr(obs)


SYSTEMS = [
    History(),
    HistoryDeep(),
    HistoryLLE(),
    Intern(),
    Grid('c08.grid.ideal', ('ideal',), full_in_quick=True),
    Grid('c08.grid.gamma', ('dortmund',)),
]

SYSTEMS.append(Grid('c08.grid.pcf', ('dortmund+pcf',), families=('WEM',)))
class EosGrid(Grid):
    """Packages whose Gamma is an equation-of-state based class (PRActivityCoefficients, SRKActivityCoefficients).  Those classes return liquid
    fugacity coefficients at 101325 Pa rather than normalised activity coefficients (outside property C16's list of models), so the defining-equation,
    ordering, round-trip, scale and permutation clauses would judge those classes, not the bubble/dew solvers.  Only the two clauses that are about
    the solvers themselves are applied here: the returned T and P are physical (`non-physical`) and the package's gamma takes part in the solution
    (`gamma-ignored`).  Documented rejections and FloatingPointError from these packages count as rejected."""
    def actions(self, st):
        return [('core', kind, z) for kind in ('bubble', 'dew') for z in self._zs(st)]

    def step(self, st, a):
        m = st.m; spec, val = st.spec, st.val
        st.tag = None; FALLBACK[0] = 0
        kind, z = a[1], a[2]
        za = np.array(z, float); zn = za / za.sum()
        try:
            T, P, f = solve(m, kind, spec, z, val)
        except Violation as v:
            if v.clause == 'unexpected-exception' and v.match.get('exc') in ('FloatingPointError', 'ZeroDivisionError'):
                raise Rejected(f'{kind}:{spec}:{v.match.get("exc")}', cut=False)
            raise
        who = f'{"BubblePoint" if kind == "bubble" else "DewPoint"}{m.ids}({list(z)}, {spec}={val}) [{m.pkg}]'
        if not (T > 0 and P > 0):
            raise Violation('non-physical', f'{who}: returned T={T!r} K, P={P!r} Pa', match=self._match(st, kind, z))
        if npos(z) >= 2 and np.all(np.isfinite(f)) and f.sum() > 0:
            self._gamma_ignored(st, kind, z, zn, T, P, f, who)
        st.tag = 'multi' if npos(z) >= 2 else 'single'
        return ('ok', zclass(z))

SYSTEMS.append(EosGrid('c08.grid.eos', ('pr', 'srk'), families=('WEM',)))


class Fallback(Grid):
    """Water-rich liquids holding a little sparingly soluble alkane under the activity-coefficient package at elevated pressure: the bubble
    temperature lies far below the ideal-solution start value, the first secant step overshoots below 0 K and the solvers enter their
    bracketing (IQ-interpolation) fallback.  `distinct_nontrivial` of this system counts the cases in which the fallback was entered."""
    LISTS = [('Water', 'Heptane'), ('Heptane', 'Water'), ('Water', 'Hexane'), ('Water', 'Octane'), ('Water', 'Octane', 'Ethanol')]
    RICH = (0.99, 0.95, 0.9)

    def warm(self):
        Grid.warm(self)
        for l in self.LISTS:
            for i in l: fx.chemical(i)

    def configs(self, tier, seed):
        cfgs = []
        for ids in self.LISTS:
            for P in (3e5, 1e6, 3e6):
                cfgs.append(('dortmund', ids, 'P', P, True, (K_GRID[seed % 3],), tier == 'thorough', ()))
            for T in (300.0, 350.0):
                cfgs.append(('dortmund', ids, 'T', T, tier == 'thorough', (K_GRID[seed % 3],), tier == 'thorough', ()))
        return cfgs

    def describe(self, tier):
        return dict(packages=['dortmund'], chemical_lists=len(self.LISTS), note='distinct_nontrivial = cases that entered the bracketing fallback')

    def _zs(self, st):
        ids = st.m.ids; w = ids.index('Water'); n = len(ids)
        out = []
        for r in self.RICH:
            z = [0.0] * n; z[w] = r
            a = [i for i in range(n) if ids[i] not in ('Water', 'Ethanol')][0]
            z[a] = round(1.0 - r, 12)
            out.append(tuple(z))
        return out

    def nontrivial(self, st, a, obs): return FALLBACK[0] > 0

SYSTEMS.append(Fallback('c08.grid.fallback', ('dortmund',)))
