"""
Command line:  python -m mc.run <Cxx> [--tier quick|thorough] [--replay file] [--systems a,b] [--workers n]

exit 0  property held on everything explored (listed known findings are printed as KNOWN-FINDING)
exit 1  at least one violation that known_findings.json does not list (VIOLATION lines on stdout)
exit 2  harness error (HARNESS-… line); nothing is claimed
"""
from __future__ import annotations
import argparse, importlib, json, os, sys, time, hashlib, warnings

ROOT = os.path.dirname(os.path.dirname(os.path.abspath(__file__)))
sys.path.insert(0, ROOT)
REPO = os.environ.get('VERIF_REPO', '/repo')
if REPO not in sys.path: sys.path.insert(0, REPO)
warnings.filterwarnings('ignore')

from mc import engine
from mc.engine import jsonable, detuple


def load_findings(prop):
    out = []
    # VERIF_EXTRA_FINDINGS is a development aid (to try out a proposed entry); registered commands never set it
    for path in [os.path.join(ROOT, 'known_findings.json')] + [p for p in os.environ.get('VERIF_EXTRA_FINDINGS', '').split(':') if p]:
        if not os.path.exists(path): continue
        with open(path) as f: data = json.load(f)
        out += [e for e in data.get('findings', []) if e.get('property') == prop and e.get('status') == 'open']
    return out


def load_fixed(prop):
    path = os.path.join(ROOT, 'known_findings.json')
    if not os.path.exists(path): return []
    with open(path) as f: data = json.load(f)
    return [e for e in data.get('fixed', []) if e.get('property') == prop and e.get('witness')]


def matches(entry, system_name, v):
    if entry.get('clause') != v['clause']: return False
    if entry.get('system') and entry['system'] != system_name: return False
    vm = v.get('match', {})
    for k, want in entry.get('match', {}).items():
        got = vm.get(k, '<absent>')
        if isinstance(want, list):
            if jsonable(got) not in want and got not in want: return False
        elif jsonable(got) != want: return False
    mr = entry.get('max_residual')
    if mr is not None:
        r = v.get('residual')
        if r is None or not (abs(r) <= 2.0 * mr): return False
    return True


def write_replay(prop, system_name, viol):
    # runs against a scratch copy of the repository (self-tests, seeded changes) keep their replays apart
    d = os.path.join(ROOT, 'replays', prop) if os.path.abspath(REPO) == '/repo' else os.path.join(ROOT, 'replays', '_scratch', prop)
    os.makedirs(d, exist_ok=True)
    actions = list(viol['hist']) + ([viol['action']] if viol['action'] is not None else [])
    body = dict(property=prop, system=system_name, config=jsonable(viol['config']),
                actions=jsonable(actions), violation=viol['v'])
    h = hashlib.blake2b(json.dumps(body, sort_keys=True).encode(), digest_size=6).hexdigest()
    path = os.path.join(d, f'{system_name}-{h}.json')
    with open(path, 'w') as f: json.dump(body, f, indent=1, sort_keys=True)
    return path


def do_replay(mod, path, quiet=False):
    with open(path) as f: body = json.load(f)
    systems = {s.name: s for s in mod.SYSTEMS}
    s = systems[body['system']]
    viols, obs = engine.replay(s, detuple(body['config']), detuple(body['actions']))
    if not quiet:
        print(f'replay {path}: system={s.name} actions={len(body["actions"])}')
        for o in obs: print('  obs', json.dumps(jsonable(o))[:300])
        for v in viols: print('  VIOLATES', v['clause'], v['msg'][:400])
    return viols, obs, body


def main(argv=None):
    ap = argparse.ArgumentParser()
    ap.add_argument('prop')
    ap.add_argument('--tier', default=os.environ.get('VERIF_TIER', 'quick'), choices=['quick', 'thorough'])
    ap.add_argument('--replay')
    ap.add_argument('--systems')
    ap.add_argument('--workers', type=int)
    ap.add_argument('--no-evidence', action='store_true')
    ap.add_argument('--max-report', type=int, default=25)
    a = ap.parse_args(argv)
    prop = a.prop.upper()
    seed = int(os.environ.get('VERIF_SEED', '0') or 0)
    t0 = time.time()
    try:
        mod = importlib.import_module(f'mc.systems.{prop.lower()}')
    except engine.HarnessError as e:
        print(f'HARNESS-ERROR {e}'); return 2

    if a.replay:
        viols, obs, body = do_replay(mod, a.replay)
        if viols:
            print(f'VIOLATION property={prop} replay={a.replay}')
            return 1
        print('replay: no violation'); return 0

    import thermosteam
    if not os.path.abspath(thermosteam.__file__).startswith(os.path.abspath(REPO) + os.sep):
        print(f'HARNESS-ERROR thermosteam imported from {thermosteam.__file__}, expected under {REPO}'); return 2
    findings = load_findings(prop)
    systems = list(mod.SYSTEMS)
    if a.systems:
        want = set(a.systems.split(','))
        systems = [s for s in systems if s.name in want or s.name.split('.')[-1] in want]

    # 1. re-examine every listed finding from its witness
    for e in findings:
        e['_reproduced'] = None
        w = e.get('witness')
        if w:
            try:
                viols, _, body = do_replay(mod, os.path.join(ROOT, w), quiet=True)
                e['_reproduced'] = any(matches(e, body['system'], v) for v in viols)
            except Exception as ex:  # a witness that cannot be executed is a harness problem
                print(f'HARNESS-ERROR witness {w}: {ex!r}'); return 2

    # 1b. witnesses of repaired defects are regression traces: they must pass, nothing is suppressed for them
    regressions = []
    for e in load_fixed(prop):
        wpath = os.path.join(ROOT, e['witness'])
        try:
            viols, _, body = do_replay(mod, wpath, quiet=True)
        except Exception as ex:
            print(f'HARNESS-ERROR witness {e["witness"]}: {ex!r}'); return 2
        if viols and not any(matches(f, body['system'], v) for f in findings for v in viols):
            regressions.append((wpath, viols[0]))

    # 2. explore
    results = []
    unmatched = []; suppressed = {}
    try:
        for s in systems:
            r = engine.explore(s, a.tier, seed, workers=a.workers)
            results.append(r)
            print(f'[{prop}] {s.name}: configs={r.configs} states={r.states} transitions={r.transitions} '
                  f'depth={r.depth_completed}/{r.depth_bound} exhaustive={r.exhaustive} rejected={r.rejected} '
                  f'cut={r.cut} nontrivial={r.nontrivial} outcomes={r.outcomes} violations={sum(g['count'] for g in r.viol_groups.values())} '
                  f'caps={r.caps} wall={r.wall:.1f}s rejected_kinds={r.rej_kinds}', flush=True)
            groups = {}
            for v in r.violations:
                key = (v['v']['clause'], json.dumps(v['v'].get('match', {}), sort_keys=True))
                g = groups.setdefault(key, [])
                g.append(v)
            for key, g in groups.items():
                g.sort(key=lambda v: (len(v['hist']), repr(v['config']), repr(v['hist']), repr(v['action'])))
                info = r.viol_groups.get(key, dict(count=len(g), max_residual=None))
                # the whole group (same clause, same match fields) is judged with its LARGEST residual
                probe = dict(g[0]['v'])
                if info['max_residual'] is not None: probe['residual'] = info['max_residual']
                hit = next((e for e in findings if matches(e, s.name, probe)), None)
                if hit is not None:
                    suppressed[hit['id']] = suppressed.get(hit['id'], 0) + info['count']
                else:
                    unmatched.append((s, key, g, info['count']))
    except engine.HarnessError as e:
        print(str(e) if str(e).startswith('HARNESS') else f'HARNESS-ERROR {e}')
        return 2

    # 3. report
    n_viol = 0
    lines = []
    for s, key, g, gcount in unmatched:
        v = g[0]
        # ownership of nondeterminism: the shortest trace must fail identically twice
        acts = list(v['hist']) + ([v['action']] if v['action'] is not None else [])
        r1 = engine.replay(s, v['config'], acts); r2 = engine.replay(s, v['config'], acts)
        if json.dumps(jsonable(r1), sort_keys=True) != json.dumps(jsonable(r2), sort_keys=True):
            print(f'HARNESS-NONDETERMINISM: replaying the same trace twice gave different observations: {s.name} {acts!r}')
            return 2
        if not r1[0]:
            print(f'HARNESS-NONDETERMINISM: violation found by the explorer does not reproduce from its trace: {s.name} {v["config"]!r} {acts!r} {v["v"]["clause"]}')
            return 2
        path = write_replay(prop, s.name, v)
        n_viol += gcount
        lines.append((path, s.name, v, gcount))
    for e in findings:
        if e['_reproduced'] is False and not suppressed.get(e['id']):
            print(f'NOTE: listed finding {e["id"]} did not reproduce on this tree (witness passes, no matching violation)')
        else:
            print(f'KNOWN-FINDING: property={prop} {e["id"]}: {e["what"]} (matching violations this run: {suppressed.get(e["id"], 0)})')
    for path, sname, v, n in lines[:a.max_report]:
        print(f'VIOLATION property={prop} replay={path}')
        print(f'  system={sname} clause={v["v"]["clause"]} match={v["v"].get("match")} occurrences={n}')
        print(f'  config={v["config"]!r} trace={list(v["hist"]) + [v["action"]]!r}')
        print(f'  {v["v"]["msg"][:600]}')
    for wpath, v in regressions:
        print(f'VIOLATION property={prop} replay={wpath}')
        print(f'  a repaired defect is back: clause={v["clause"]} {v["msg"][:400]}')
    if len(lines) > a.max_report:
        print(f'... {len(lines) - a.max_report} more distinct violation groups (replay files written)')

    wall = time.time() - t0
    if not a.no_evidence and not a.systems:
        write_evidence(mod, prop, a.tier, seed, results, n_viol, suppressed, findings, wall)
    print(f'[{prop}] tier={a.tier} seed={seed} states={sum(r.states for r in results)} '
          f'transitions={sum(r.transitions for r in results)} unlisted_violation_groups={len(lines)} '
          f'suppressed_known={sum(suppressed.values())} wall={wall:.1f}s')
    return 1 if (lines or regressions) else 0


def write_evidence(mod, prop, tier, seed, results, n_viol, suppressed, findings, wall):
    os.makedirs(os.path.join(ROOT, 'evidence'), exist_ok=True)
    samples = []
    for r in results: samples.extend(r.samples[:3])
    cov = dict(
        states=sum(r.states for r in results),
        transitions=sum(r.transitions for r in results),
        traces_validated_against_impl=sum(r.transitions for r in results),
        evaluations=sum(r.transitions for r in results),
        distinct_nontrivial=sum(r.nontrivial for r in results),
        distinct_outcomes=sum(r.outcomes for r in results),
        rejected_calls=sum(r.rejected for r in results),
        cut_transitions=sum(r.cut for r in results),
        rule=getattr(mod, 'RULE', ''),
        exhaustive=all(r.exhaustive for r in results) and bool(results),
        caps_hit=[c for r in results for c in r.caps],
        samples=samples[:12] or ['(no transition executed)'],
        systems=[r.summary() for r in results],
        tolerances=getattr(mod, 'TOLERANCES', {}),
        known_findings_listed=[e['id'] for e in findings],
        violations_suppressed_by_known_findings=suppressed,
        explanation=('Every transition is executed on the real thermosteam objects in lock-step with the reference '
                     'model; traces_validated_against_impl therefore equals the number of explored transitions.'),
    )
    ev = dict(property_id=prop, tier=tier, seed=seed, level='model_checking', coverage=cov,
              assumptions=list(getattr(mod, 'ASSUMPTIONS', [])), wall_s=round(wall, 2), violations=n_viol)
    path = os.path.join(ROOT, 'evidence', f'{prop}.json')
    with open(path, 'w') as f: json.dump(jsonable(ev), f, indent=1)
    try:
        import jsonschema
        with open('/root/.vp/EVIDENCE.schema.json') as f: schema = json.load(f)
        jsonschema.validate(json.load(open(path)), schema)
    except ImportError:
        pass
    except FileNotFoundError:
        pass


if __name__ == '__main__':
    sys.exit(main())
