"""
Shared fixtures for the systems (DESIGN.md section 2): property packages built once per process,
the reset of process-global caches that must not alias executions, and helpers to read the
complete concrete state of streams for `canon`.

Everything here is lazy: importing this module does not import thermosteam.
"""
from __future__ import annotations
import numpy as np

_tmo = None
_thermos = {}

def tmo():
    global _tmo
    if _tmo is None:
        import thermosteam as t
        _tmo = t
    return _tmo

PACKAGES = {
    'A':   ('Water', 'Ethanol', 'Methanol'),
    'B':   ('Ethanol', 'Water'),                      # same chemicals as a subset of A, different order
    'VLE': ('Water', 'Ethanol', 'Propanol', 'N2', 'Glucose'),   # N2 locked g, Glucose locked s
    'ALC': ('Methanol', 'Ethanol', 'Propanol', '1-Butanol'),
    'HC':  ('Hexane', 'Heptane', 'Octane', 'Benzene', 'Toluene'),
    'LLE': ('Water', '1-Butanol', 'Octanol', 'EthylAcetate', 'Hexane', 'Ethanol'),
    'RXN': ('H2', 'O2', 'H2O', 'CH4', 'CO', 'CO2', 'Ethanol', 'Glucose', 'AceticAcid'),
}
LOCKED = {'VLE': {'N2': 'g', 'Glucose': 's'}}

def chemical(ID, **kw):
    t = tmo()
    return t.Chemical(ID, cache=True, **kw) if not kw else t.Chemical(ID, **kw)

def thermo(name, ideal=False):
    """Property package by name (built once per process).  `ideal=True` gives thermo.ideal()."""
    key = (name, ideal)
    if key not in _thermos:
        t = tmo()
        if (name, False) not in _thermos:
            locked = LOCKED.get(name, {})
            chems = []
            for ID in PACKAGES[name]:
                if ID in locked:
                    chems.append(t.Chemical(ID, phase=locked[ID]))
                else:
                    chems.append(t.Chemical(ID, cache=True))
            cs = t.Chemicals(chems)
            _thermos[(name, False)] = t.Thermo(cs, cache=False) if False else t.Thermo(cs)
        if ideal:
            _thermos[key] = _thermos[(name, False)].ideal()
    return _thermos[key]

def custom_thermo(IDs, locked=None, ideal=False):
    """Package over an arbitrary ordered tuple of bundled chemicals (cached per tuple)."""
    key = ('custom', tuple(IDs), tuple(sorted((locked or {}).items())), ideal)
    if key not in _thermos:
        t = tmo()
        locked = locked or {}
        chems = [t.Chemical(ID, phase=locked[ID]) if ID in locked else t.Chemical(ID, cache=True) for ID in IDs]
        th = t.Thermo(t.Chemicals(chems))
        _thermos[key] = th.ideal() if ideal else th
    return _thermos[key]

def reset_globals(*thermos):
    """Clear every process-global cache that could alias two executions (DESIGN 1.2)."""
    t = tmo()
    from thermosteam import indexer
    for th in (thermos or [v for v in _thermos.values()]):
        try: th.chemicals._index_cache.clear()
        except AttributeError: pass
    indexer.MaterialIndexer._index_caches.clear()
    t.Stream._flow_cache.clear()
    t.AbstractStream.feed_priorities.clear()
    try: t.network.disjunctions.clear()
    except Exception: pass
    # registries and ticket counters are process-global (an unpickled stream may register itself)
    for cls in (t.Stream, t.AbstractStream, t.AbstractUnit):
        try:
            cls.registry.data.clear(); cls.ticket_numbers.clear()
        except Exception: pass

# ---- reading concrete state --------------------------------------------------------------------

def r12(x):
    """float rounded to 12 significant digits (digest of solver warm-start fields)"""
    x = float(x)
    if x == 0 or x != x or x in (float('inf'), float('-inf')): return x
    return float(f'{x:.12g}')

def sparse_digest(v):
    """Complete representation of a SparseVector / SparseLogicalVector / SparseArray: a stored zero is visible."""
    t = tmo()
    import sys; sp = sys.modules['thermosteam.base.sparse']
    if isinstance(v, sp.SparseArray):
        return ('A', tuple(sparse_digest(r) for r in v.rows))
    if isinstance(v, sp.SparseLogicalVector):
        return ('L', v.size, tuple(sorted(v.set)), bool(getattr(v, 'read_only', False)))
    if isinstance(v, sp.SparseVector):
        return ('V', v.size, tuple(sorted((int(k), float(x)) for k, x in v.dct.items())), bool(getattr(v, 'read_only', False)))
    if isinstance(v, np.ndarray):
        return ('nd', v.shape, tuple(np.asarray(v, float).ravel().tolist()))
    return ('?', repr(v))

def dense(stream):
    """dict phase -> dense float array (in the stream's own chemical order)."""
    imol = stream._imol
    t = tmo()
    if isinstance(stream, t.MultiStream) or hasattr(imol, '_phases') and not hasattr(imol, '_phase'):
        return {p: np.array(imol.data.rows[i].to_array(), float) for i, p in enumerate(imol._phases)}
    return {imol._phase._phase if hasattr(imol._phase, '_phase') else imol._phase: np.array(imol.data.to_array(), float)}

def totals_by_cas(stream):
    """dict CAS -> total molar flow over phases."""
    chems = stream.chemicals
    tot = np.zeros(chems.size)
    for p, arr in dense(stream).items(): tot = tot + arr
    return {c.CAS: float(x) for c, x in zip(chems, tot)}

def stream_digest(s, ids=None):
    """Digest of every mutable field of a Stream / MultiStream that can influence a later step.
    ids: dict id(obj)->n used for first-visit alias numbering across several streams."""
    t = tmo()
    ids = {} if ids is None else ids
    def alias(o): return ids.setdefault(id(o), len(ids))
    imol = s._imol
    tc = s._thermal_condition
    multi = isinstance(s, t.MultiStream)
    if multi:
        phases = tuple(imol._phases)
        ph = ('M', phases)
    else:
        ph = ('S', imol._phase._phase, alias(imol._phase))
    cache = getattr(s, '_property_cache', None)
    ckey = getattr(s, '_property_cache_key', None)
    dc = getattr(imol, '_data_cache', None)
    return (type(s).__name__, tuple(c.ID for c in s.chemicals), ph, sparse_digest(imol.data), alias(imol.data),
            (r12(tc._T), r12(tc._P)), alias(tc),
            None if cache is None else (alias(cache), tuple(sorted((str(k), _val(v)) for k, v in cache.items()))),
            _val(ckey),
            None if dc is None else (alias(dc), tuple(sorted(str(k) for k in dc))))

def _val(v):
    if isinstance(v, (float, np.floating)): return r12(v)
    if isinstance(v, np.ndarray): return tuple(r12(x) for x in v.ravel())
    if isinstance(v, (tuple, list)): return tuple(_val(x) for x in v)
    if isinstance(v, (int, str, bool)) or v is None: return v
    if hasattr(v, 'dct') or hasattr(v, 'rows') or hasattr(v, 'set'): return sparse_digest(v)
    return type(v).__name__
