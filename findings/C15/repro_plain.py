"""Plain reproductions (no explorer) of the C15 defects.  Run:
   NUMBA_DISABLE_JIT=1 /venv/bin/python findings/C15/repro_plain.py [repo_path]"""
import sys, warnings; warnings.filterwarnings('ignore')
sys.path.insert(0, sys.argv[1] if len(sys.argv) > 1 else '/repo')
import numpy as np, thermosteam as tmo
from chemicals import solubility_eutectic

# D1  default LLE method does not reach equal activity (lle.py:65-66: ln K is never updated)
th = tmo.Thermo(tmo.Chemicals(['Water', 'Octanol', 'Ethanol'], cache=True)); g = th.Gamma(th.chemicals.tuple)
s = tmo.Stream(None, Water=10, Octanol=5, Ethanol=2, thermo=th); s.lle(300.)
a = [x / x.sum() * g(x / x.sum(), 300.) for x in (s.imol['l'].to_array(), s.imol['L'].to_array())]
print('D1 activity ratio L/l (should be 1,1,1):', a[1] / a[0])

# D1b same root cause: an earlier call at another T decides the result, even with use_cache=False
s = tmo.Stream(None, Water=10, Octanol=5, Ethanol=2, thermo=th); s.lle(340.); s.lle(300., use_cache=False)
f = tmo.Stream(None, Water=10, Octanol=5, Ethanol=2, thermo=th); f.lle(300.)
print('D1b water in the two phases after history', sorted([s.imol['l', 'Water'], s.imol['L', 'Water']]),
      'fresh', sorted([f.imol['l', 'Water'], f.imol['L', 'Water']]))

# D2  signed cache test (lle.py:229): coefficients of 340 K reused at 300 K
for uc in (True, False):
    s = tmo.Stream(None, Water=10, Octanol=5, Ethanol=2, thermo=th); s.lle.method = 'differential evolution'
    s.lle(340.); s.lle(300., use_cache=uc)
    print('D2 use_cache=%s water split' % uc, sorted([s.imol['l', 'Water'], s.imol['L', 'Water']]))

# S1  given solubility on a fresh SLE object
th2 = tmo.Thermo(tmo.Chemicals(['Methanol', 'Water', 'Ethanol', 'Tetradecanol'], cache=True))
s = tmo.Stream(None, Methanol=10, Tetradecanol=30, thermo=th2)
try: s.sle('Tetradecanol', T=300., solubility=0.2); print('S1 ok', s.imol['l', 'Tetradecanol'])
except Exception as e: print('S1', type(e).__name__, e)

# D4  computed -> given -> computed on the same mixture: the third call uses the wrong activity coefficient
s = tmo.Stream(None, Water=4, Tetradecanol=30, thermo=th2)
s.sle('Tetradecanol', T=282.65); first = s.imol['l', 'Tetradecanol']
s.sle('Tetradecanol', T=282.65, solubility=0.05); s.sle('Tetradecanol', T=282.65)
print('D4 dissolved by the 1st computed call', first, 'by the 3rd (same input)', s.imol['l', 'Tetradecanol'])

# D3  solubility iteration cycles: result is not a solution of the solubility equation
th3 = tmo.Thermo(tmo.Chemicals(['Methanol', 'Water', 'Ethanol', 'Glucose'], cache=True)); c = th3.chemicals.Glucose
s = tmo.Stream(None, Methanol=1, Water=0.5, Glucose=1, thermo=th3); s.sle('Glucose', T=250.)
l = s.imol['l'].to_array(); x = l / l.sum()
S = solubility_eutectic(250., c.Tm, c.Hfus, c.Cn.l(250.), c.Cn.s(250.), th3.Gamma(th3.chemicals.tuple)(x, 250.)[3])
print('D3 liquid mole fraction of glucose', x[3], 'eutectic solubility at that composition', S)
