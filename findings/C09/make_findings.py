"""Build /verif/findings/C09/proposed_findings.json + witness files from the replay files of a run."""
import json, glob, collections, os, shutil, sys
R = '/verif/replays/C09'
OUT = '/verif/findings/C09'

WHAT = {
 'sa-repeated-row-index-aliases': ('finding', "SparseArray[[0, 0]] returns an array whose two rows are the SAME row object: a following in-place operation on the result is applied twice (x = sa[[0,0]]; x += 1 adds 2)"),
 'operand-is-row-of-target': ('finding', "A += A[0] (the operand is a row view of the in-place target): row 0 is updated first and the UPDATED row is applied to the remaining rows (NumPy: as if the operand were copied first); A -= A[0] raises RuntimeError"),
 'truediv-shares-storage': ('fix', "SparseVector._truediv_sparse: a zero length-1 vector divided by a longer sparse operand returns a result whose dct IS the left operand's dct (new = dct)"),
 'leading-axes-squeezed': ('finding', "reduce_ndim drops leading length-1 axes of a 2-d operand: results have shape (n,) where NumPy gives (1, n), and in-place forms accept an operand NumPy rejects"),
 'vector-inplace-2d-operand': ('fix', "SparseVector/SparseLogicalVector in-place operator with a 2-d operand of several rows: template passes `other` instead of the row; target is grown/partly updated or the call returns instead of being rejected"),
 'column-operand-rejected': ('finding', "dense 2-d operand whose rows have length 1 ((m,1) column): the _<op>_array kernels have no length-1 branch and raise 'shape mismatch' where NumPy broadcasts (eq/ne do broadcast)"),
 'single-row-array-truncates-2d-operand': ('finding', "SparseArray with ONE row against a dense 2-d operand with several rows: zip(rows, other) truncates to one row (result shape (1,n) instead of (m,n)); in-place forms silently use the first row instead of rejecting"),
 'logical-op-with-int': ('finding', "SparseLogicalVector / logical SparseArray &,|,^ with a Python int or an integer array raises TypeError (NumPy returns an integer array)"),
 'row-count-mismatch-accepted': ('finding', "SparseArray (m rows, m > 1) against a 2-d dense or sparse operand with a different number of rows (> 1): zip(rows, other) truncates to the shorter one, nothing is rejected (out-of-place, comparisons and in-place forms)"),
 'logical-truediv-returns-logical': ('finding', "true division of logical sparse objects by booleans returns a logical object where NumPy returns floats"),
 'isub-self': ('fix', "v -= v (same object on both sides; also A -= A): _isub_sparse deletes from the dict it is iterating -> RuntimeError"),
 'slv-negative-queries': ('fix', "SparseLogicalVector.negative_keys / negative_index return None (missing return)"),
 'logical-maxmin-float': ('finding', "max/min of logical vectors and arrays return float sparse objects (NumPy: boolean)"),
 'sa-maxmin-keepdims-zero': ('fix', "SparseArray.max/min(axis=None, keepdims=True) stores an explicit 0.0 when the extreme is zero"),
 'sa-anyall-keepdims-dict': ('fix', "SparseArray.any/all(axis=1, keepdims=True) builds SparseLogicalVector rows whose `set` is a dict ({} literal)"),
 'negative-index': ('finding', "negative indices are not wrapped: reads return 0/False, writes store a key outside range(size) (all index forms, vectors and arrays)"),
 'slice-not-clipped': ('fix', "slices are not clipped to the size (default_range): sv[:k] with k > size reads k elements and writes keys >= size; negative bounds / steps are not honoured"),
 'setitem-shape-mismatch-accepted': ('finding', "__setitem__ with a value whose shape does not broadcast to the selection is not rejected (zip truncation / value ignored)"),
 'setitem-2d-value-clears-target': ('fix', "x[:] = <2-d value with several rows> (and sa[i] = ..., sa[i, :] = ...) empties the target row before raising IndexError"),
 'sa-index-array-pair-not-broadcast': ('finding', "SparseArray[rows_array, cols_array] zips index arrays of different length instead of broadcasting them (get and set)"),
 'sa-boolean-mask-in-index-pair': ('finding', "a boolean mask inside a SparseArray index pair is iterated as integers 0/1 (wrong elements, IndexError, keys False/True stored)"),
 'sa-row-mask-assignment': ('finding', "SparseArray[row_mask] = 1-d/2-d value assigns value[i] (an element / the i-th row of the unmasked value) instead of broadcasting the value over the selected rows"),
 'sa-open-slice-with-array-column': ('finding', "SparseArray[:, array] raises ValueError (`n == open_slice` evaluated on an array)"),
 'sab-fancy-int-set': ('finding', "logical SparseArray[rows_array, int] = value raises TypeError ('int' object is not iterable)"),
 'logical-array-copy-like': ('finding', "SparseArray.copy_like on logical rows raises AttributeError (SparseLogicalVector has no copy_like)"),
 'readonly-array-inplace': ('finding', "in-place operators of a read-only SparseArray (setflags(0)) modify it: the row kernels are called directly, bypassing the read_only check"),
 'readonly-array-fancy-set': ('finding', "SparseArray[rows_array, cols] = value on a read-only array writes into the row dicts directly"),
 'readonly-mutators': ('finding', "copy_like / mix_from / remove_negatives / clear-like mutators ignore read_only"),
}

KEEP = {
 'sa-repeated-row-index-aliases': ['dev', 'fam', 'tk'],
 'operand-is-row-of-target': ['dev', 'okc', 'opc', 'tk'],
 'truediv-shares-storage': ['dev', 'op'],
 'leading-axes-squeezed': ['dev', 'pcat'],
 'vector-inplace-2d-operand': ['dev', 'pcat', 'opc', 'tk'],
 'column-operand-rejected': ['dev', 'pcat', 'okc'],
 'single-row-array-truncates-2d-operand': ['dev', 'pcat', 'tk'],
 'logical-op-with-int': ['dev', 'okc', 'opc', 'tk'],
 'row-count-mismatch-accepted': ['dev', 'pcat', 'tk'],
 'logical-truediv-returns-logical': ['dev', 'opc', 'tk'],
 'isub-self': ['dev', 'okc', 'opc'],
 'negative-index': ['dev', 'icat', 'fam'],
 'slice-not-clipped': ['dev', 'icat', 'fam'],
 'setitem-shape-mismatch-accepted': ['dev', 'fam'],
 'setitem-2d-value-clears-target': ['dev', 'fam', 'vkc'],
 'sa-index-array-pair-not-broadcast': ['dev', 'fam', 'icat', 'ifam', 'tk'],
 'sa-boolean-mask-in-index-pair': ['dev', 'fam', 'icat', 'ifam', 'tk'],
 'sa-row-mask-assignment': ['dev', 'fam', 'icat', 'ifam', 'tk'],
 'sa-open-slice-with-array-column': ['dev', 'fam', 'icat', 'ifam', 'tk'],
 'sab-fancy-int-set': ['dev', 'fam', 'icat', 'ifam', 'tk'],
 'readonly-array-inplace': ['dev', 'fam', 'tk', 'op'],
 'readonly-array-fancy-set': ['dev', 'fam', 'tk', 'op', 'ifam'],
 'readonly-mutators': ['dev', 'fam', 'op'],
}

def label(system, clause, m):
    fam = m.get('fam'); dev = m.get('dev')
    if 'pcat' in m:
        pcat, opc, okc = m['pcat'], m.get('opc'), m.get('okc', '')
        if clause == 'result-shares-storage': return 'truediv-shares-storage'
        if okc.endswith('-alias'): return 'operand-is-row-of-target'
        if dev == 'RuntimeError' and okc.endswith('-self'): return 'isub-self'
        if dev == 'boolness' and opc in ('arith', 'rarith'): return 'logical-truediv-returns-logical'
        if pcat == 'lead1': return 'leading-axes-squeezed'
        if pcat.startswith('leadn') and opc in ('iarith', 'ilogical'): return 'vector-inplace-2d-operand'
        if pcat.endswith('col1') and clause == 'unexpected-exception' and dev == 'ValueError': return 'column-operand-rejected'
        if pcat.startswith('rows-s1'): return 'single-row-array-truncates-2d-operand'
        if clause == 'unexpected-exception' and dev == 'TypeError' and opc in ('logical', 'rlogical') and m.get('tk') in ('SLV', 'SAb') and okc in ('scalar', 'dense1'): return 'logical-op-with-int'
        if pcat == 'rows-x' and clause == 'shape-mismatch-not-rejected': return 'row-count-mismatch-accepted'
        if dev == 'boolness' and opc in ('arith', 'rarith'): return 'logical-truediv-returns-logical'
        return None
    if fam in ('unary', 'reduction'):
        op = m.get('op')
        if op in ('negative_keys', 'negative_index'): return 'slv-negative-queries'
        if dev == 'boolness' and op in ('max', 'min'): return 'logical-maxmin-float'
        if dev == 'stored-zero' and op in ('max', 'min'): return 'sa-maxmin-keepdims-zero'
        if dev == 'container' and op in ('any', 'all'): return 'sa-anyall-keepdims-dict'
        return None
    if fam in ('getitem', 'setitem'):
        icat = m.get('icat'); ifam = m.get('ifam'); tk = m.get('tk')
        if clause == 'shape-mismatch-not-rejected': return 'setitem-shape-mismatch-accepted'
        if clause == 'rejected-but-modified' and dev == 'IndexError': return 'setitem-2d-value-clears-target'
        if dev == 'aliased-rows': return 'sa-repeated-row-index-aliases'
        if icat == 'negative': return 'negative-index'
        if icat == 'slice-over': return 'slice-not-clipped'
        if tk in ('SA', 'SAb'):
            if ifam == 'fancy,fancy': return 'sa-index-array-pair-not-broadcast'
            if ifam in ('slice,fancy', 'slice,mask') and clause == 'unexpected-exception': return 'sa-open-slice-with-array-column'
            if ifam in ('mask', 'mask,slice', 'mask2') and clause == 'inplace-result': return 'sa-row-mask-assignment'
            if ifam == 'fancy,int' and tk == 'SAb' and dev == 'TypeError': return 'sab-fancy-int-set'
            if 'mask' in ifam and ',' in ifam: return 'sa-boolean-mask-in-index-pair'
        return None
    if fam == 'ctor':
        if m.get('op') == 'copy_like' and dev == 'AttributeError': return 'logical-array-copy-like'
        return None
    if fam == 'readonly':
        if m.get('tk') == 'SA' and m.get('op') == 'iop': return 'readonly-array-inplace'
        if m.get('tk') == 'SA' and m.get('op') == 'set': return 'readonly-array-fancy-set'
        if m.get('op') in ('copy_like', 'mix_from', 'remove_negatives', 'clear', 'from_flat_array'): return 'readonly-mutators'
        return None
    if fam == 'history':
        if dev == 'RuntimeError': return 'isub-self'
    return None

groups = collections.OrderedDict(); unl = []
files = sorted(f for d in (sys.argv[1:] or [R]) for f in glob.glob(d + '/*.json'))
for f in files:
    b = json.load(open(f)); v = b['violation']; m = v['match']
    lab = label(b['system'], v['clause'], m)
    if lab is None:
        unl.append((f, b['system'], v['clause'], m, v['msg'][:200])); continue
    g = groups.setdefault((lab, v['clause']), [])
    g.append((f, b))
print('unlabelled:', len(unl))
for u in unl[:40]: print('  ', u)

# drop old witnesses
for f in glob.glob(OUT + '/*.json'):
    os.remove(f)
entries = []
for (lab, clause), g in groups.items():
    keys = set.intersection(*[set(b['violation']['match']) for _, b in g])
    keys &= set(KEEP.get(lab, keys))
    match = {}
    for k in sorted(keys):
        vals = []
        for _, b in g:
            x = b['violation']['match'][k]
            if x not in vals: vals.append(x)
        match[k] = vals[0] if len(vals) == 1 else sorted(vals, key=str)
    # witness: shortest trace, prefer a layer-1 system
    g.sort(key=lambda fb: (len(fb[1]['actions']), 'heap' in fb[1]['system'] or 'closure' in fb[1]['system'], len(json.dumps(fb[1]['config'])), fb[0]))
    wf, wb = g[0]
    wid = f'C09-{lab}--{clause}'
    wname = f'{lab}--{clause}.json'
    shutil.copy(wf, os.path.join(OUT, wname))
    kind, what = WHAT[lab]
    entries.append(dict(id=wid, property='C09', status='open', clause=clause, match=match,
                        what=what + (' [minimal fix proposed: findings/C09/%s.fix.diff]' % lab if kind == 'fix' else ''),
                        witness=f'findings/C09/{wname}'))
json.dump(dict(findings=entries), open(os.path.join(OUT, 'proposed_findings.json'), 'w'), indent=1)
print('entries', len(entries))
for e in entries: print(' ', e['id'], json.dumps(e['match'])[:230])
