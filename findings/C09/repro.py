"""Plain reproductions (no harness) of every C09 finding: NUMBA_DISABLE_JIT=1 /venv/bin/python findings/C09/repro.py [repo]"""
import sys, warnings
sys.path.insert(0, sys.argv[1] if len(sys.argv) > 1 else '/repo')
warnings.filterwarnings('ignore')
import numpy as np
from thermosteam.base.sparse import SparseVector as SV, SparseLogicalVector as SLV, SparseArray as SA, sparse

def show(name, f):
    try: r = f()
    except Exception as e: r = f'raises {type(e).__name__}: {e}'
    print(f'{name:42s} {r}')

def t1():
    a = SV([0.]); r = a / SV([1., 1.]); return f'result.dct is a.dct -> {r.dct is a.dct}'
show('truediv-shares-storage', t1)
show('leading-axes-squeezed', lambda: f"(SV([1,2]) + np.ones((1,2))).shape = {(SV([1.,2.]) + np.ones((1,2))).shape}  numpy: {(np.array([1.,2.]) + np.ones((1,2))).shape}")
def t3():
    v = SV([1.]);
    try: v += [[1., 2.], [3., 4.]]
    except Exception as e: return f'raises {type(e).__name__} AND target is now size {v.size}, dct {v.dct} (numpy: ValueError, target untouched)'
    return f'returned, v = {v.to_array()}'
show('vector-inplace-2d-operand', t3)
show('column-operand-rejected', lambda: SV([1., 2.]) + np.array([[1.], [2.]]))
show('single-row-array-truncates-2d-operand', lambda: f"(sparse([[1.,2.]]) + np.ones((2,2))).shape = {(sparse([[1.,2.]]) + np.ones((2,2))).shape}   numpy (2, 2)")
show('logical-op-with-int', lambda: SLV([True, False]) & 1)
show('logical-truediv-returns-logical', lambda: f"{(SLV([True, False]) / True).to_array()}   numpy {np.array([True, False]) / True}")
def t8():
    v = SV([1., 2.]); v -= v; return v.to_array()
show('isub-self', t8)
show('slv-negative-queries', lambda: f"negative_keys() -> {SLV([True]).negative_keys()!r}, negative_index() -> {SLV([True]).negative_index()!r}")
show('logical-maxmin-float', lambda: f"{SLV([True, False]).max(keepdims=True)!r}   numpy {np.array([True, False]).max(keepdims=True)!r}")
show('sa-maxmin-keepdims-zero', lambda: f"rows[0].dct = {sparse([[0., -1.]]).max(keepdims=True).rows[0].dct}")
show('sa-anyall-keepdims-dict', lambda: f"type(rows[0].set) = {type(sparse([[0., 0.]]).any(axis=1, keepdims=True).rows[0].set).__name__}")
def t13():
    v = SV([1., 2.]); g = v[-1]; v[-1] = 5.; return f'v[-1] -> {g} (numpy 2.0); after v[-1] = 5: dct = {v.dct}'
show('negative-index', t13)
def t14():
    v = SV([1.]); g = v[:2]; v[:2] = 3.; return f'v[:2] -> {g} (numpy [1.]); after v[:2] = 3: dct = {v.dct}, size {v.size}'
show('slice-not-clipped', t14)
def t15():
    v = SV([1., 2.]); v[[0]] = [7., 8., 9.]; return f'v[[0]] = [7,8,9] returned; v = {v.to_array()} (numpy: ValueError)'
show('setitem-shape-mismatch-accepted', t15)
def t16():
    v = SV([1., 2.])
    try: v[:] = np.ones((2, 2))
    except Exception as e: return f'raises {type(e).__name__}, v is now {v.to_array()} (was [1. 2.])'
show('setitem-2d-value-clears-target', t16)
show('sa-index-array-pair-not-broadcast', lambda: f"sa[[0,1],[0]] -> {sparse([[1.,2.],[3.,4.]])[[0,1],[0]]}   numpy {np.array([[1.,2.],[3.,4.]])[[0,1],[0]]}")
show('sa-boolean-mask-in-index-pair', lambda: f"sa[[True,True],0] -> {sparse([[1.,2.],[3.,4.]])[np.array([True,True]),0]}   numpy {np.array([[1.,2.],[3.,4.]])[np.array([True,True]),0]}")
def t19():
    a = sparse([[1., 2.], [3., 4.]]); a[np.array([False, True])] = [7., 8.]; return f'{a.to_array().tolist()}   numpy [[1,2],[7,8]]'
show('sa-row-mask-assignment', t19)
show('sa-open-slice-with-array-column', lambda: sparse([[1., 2.], [3., 4.]])[:, np.array([0, 1])])
def t21():
    a = sparse([[True, False], [False, False]]); a[[0, 1], 0] = True; return a.to_array()
show('sab-fancy-int-set', t21)
def t22():
    a = sparse([[True, False]]); b = sparse([[False, True]]); a.copy_like(b); return a.to_array()
show('logical-array-copy-like', t22)
def t23():
    a = sparse([[1., 2.]]); a.setflags(0); a += 1.; return f'read-only array after += 1: {a.to_array()}'
show('readonly-array-inplace', t23)
def t24():
    a = sparse([[1., 2.]]); a.setflags(0); a[[0], [0]] = 9.; return f'read-only array after a[[0],[0]] = 9: {a.to_array()}'
show('readonly-array-fancy-set', t24)
def t25():
    v = SV([1., -2.]); v.setflags(0); v.remove_negatives(); return f'read-only vector after remove_negatives(): {v.to_array()}'
show('readonly-mutators', t25)
def t26():
    a = sparse([[0.5, 1.], [0., -1.]]); a += a[0]; d = np.array([[0.5, 1.], [0., -1.]]); d += d[0]
    return f'A += A[0] -> {a.to_array().tolist()}   numpy {d.tolist()}'
show('operand-is-row-of-target', t26)
def t27():
    a = sparse([[1., 2.], [3., 4.]]); x = a[[0, 0]]; x += 1.; d = np.array([[1., 2.], [3., 4.]]); y = d[[0, 0]]; y += 1.
    return f'x = sa[[0,0]]; x += 1 -> x = {x.to_array().tolist()}   numpy {y.tolist()}'
show('sa-repeated-row-index-aliases', t27)
show('row-count-mismatch-accepted', lambda: f"(sparse(2x1) + np.ones((3,1))).shape = {(sparse([[1.],[2.]]) + np.ones((3,1))).shape}   (numpy: ValueError, shapes (2,1) (3,1))")
show('logical-op-with-int (array)', lambda: SLV([True, False]) & np.array([1, 0]))
