import subprocess, os, sys, shutil, time
P = '/tmp/repo_c09s/thermosteam/base/sparse.py'
src = open('/repo/thermosteam/base/sparse.py').read()
EDITS = [
 ('S1 _iadd_sparse keeps an entry that cancels to zero (the `else: del dct[i]` is lost)',
  """        if size == other_size:
            for i, j in other_dct.items():
                if i in dct:
                    j += dct[i]
                    if j: dct[i] = j
                    else: del dct[i]
                else:
                    dct[i] = j
        elif size == 1 and other_size: 
            self.size = other_size""",
  """        if size == other_size:
            for i, j in other_dct.items():
                if i in dct:
                    j += dct[i]
                    dct[i] = j
                else:
                    dct[i] = j
        elif size == 1 and other_size: 
            self.size = other_size""", 'c09.ops.SV,c09.closure.v2'),
 ('S2 _sub_sparse, length-1 zero left operand: sign of the broadcast operand lost',
  "                new = {i: -j for i, j in other_dct.items()}", "                new = {i: j for i, j in other_dct.items()}", 'c09.ops.SV'),
 ('S3 SparseVector.__setitem__ no longer checks read_only',
  """    def __setitem__(self, index, value):
        if self.read_only: raise ValueError('assignment destination is read-only')
        dct = self.dct""", """    def __setitem__(self, index, value):
        dct = self.dct""", 'c09.readonly.SV'),
 ('S4 SparseLogicalVector._ixor_sparse (same size) uses update instead of symmetric_difference_update',
  """        if size == other_size:
            data.symmetric_difference_update(other.set)""", """        if size == other_size:
            data.update(other.set)""", 'c09.ops.SLV'),
 ('S5 SparseVector.max forgets the implicit zeros of a partly filled negative vector',
  "            if arr < 0 and len(dct) < self.size: arr = 0\n", "", 'c09.unary.SV'),
 ('S6 SparseVector.copy shares the dict with the original',
  "        return SparseVector.from_dict(self.dct.copy(), self.size)", "        return SparseVector.from_dict(self.dct, self.size)", 'c09.unary.SV'),
 ('S7 SparseVector.__setitem__(int, 0) no longer deletes the entry (writes nothing)',
  """        elif value:
            dct[index] = float(value)
        elif index in dct:
            del dct[index]
    
    exec(sparse_vector_math.format(name='add'))""", """        elif value:
            dct[index] = float(value)
    
    exec(sparse_vector_math.format(name='add'))""", 'c09.index.SV,c09.closure.v2'),
]

EDITS += [
 ('S8 _imul_sparse by a length-1 ZERO sparse operand leaves the target unchanged',
  """                for i in dct: dct[i] *= other
            else:
                dct.clear()
        else:
            raise ValueError('shape mismatch between arrays')
        return self
    
    def _imul_array(self, other):""", """                for i in dct: dct[i] *= other
        else:
            raise ValueError('shape mismatch between arrays')
        return self
    
    def _imul_array(self, other):""", 'c09.ops.SV'),
 ('S9 SparseVector._eq_array, length-1 non-zero operand: comparison inverted',
  "                new = {i for i, j in dct.items() if other == j}", "                new = {i for i, j in dct.items() if other != j}", 'c09.ops.SV'),
 ('S10 SparseArray.mean(axis=1) divides by the number of rows',
  "                    if x: dct[i] = x / j.size", "                    if x: dct[i] = x / len(rows)", 'c09.unary.SA'),
 ('S12 _isub_array, growth branch of a zero length-1 target: sign lost',
  "                    if j: dct[i] = -float(j)\n        else:\n            raise ValueError('shape mismatch between arrays')\n        return self\n    \n    def _mul_scalar",
  "                    if j: dct[i] = float(j)\n        else:\n            raise ValueError('shape mismatch between arrays')\n        return self\n    \n    def _mul_scalar", 'c09.ops.SV'),
]
only = sys.argv[1:] 
for name, old, new, systems in EDITS:
    if only and name.split()[0] not in only: continue
    assert src.count(old) == 1, (name, src.count(old))
    open(P, 'w').write(src.replace(old, new))
    env = dict(os.environ, VERIF_REPO='/tmp/repo_c09s', VERIF_X='1')
    t0 = time.time()
    r = subprocess.run(['./check', 'C09', '--tier', 'quick', '--workers', '4', '--no-evidence', '--systems', systems], cwd='/verif', env=env, capture_output=True, text=True)
    viol = [l for l in r.stdout.splitlines() if l.startswith('VIOLATION')]
    first = [l for l in r.stdout.splitlines() if l.startswith('  system=')][:2]
    t1 = time.time()
    if os.environ.get('NOBASE'):
        print(f'{name}\n   check exit={r.returncode} violation_groups={len(viol)} ({t1-t0:.0f}s)', flush=True); continue
    b = subprocess.run(['/verif/tools/baseline.sh', f'/tmp/c09_selftest_{name.split()[0]}.xml'], env=dict(os.environ, VERIF_REPO='/tmp/repo_c09s'), capture_output=True, text=True)
    print(f'{name}\n   check exit={r.returncode} violation_groups={len(viol)} ({t1-t0:.0f}s)  {first[0][:220] if first else ""}\n   suite: {b.stdout.strip()[:200]}', flush=True)
open(P, 'w').write(src)
