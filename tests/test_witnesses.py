"""Plain unit tests that replay every committed witness WITHOUT the explorer (build + step loop only).

  * witnesses of repaired defects (known_findings.json "fixed") must pass on the current tree;
  * witnesses of open known findings must still fail with the listed clause (otherwise the entry is stale).

Run:  cd /verif && NUMBA_DISABLE_JIT=1 PYTHONHASHSEED=0 /venv/bin/python -m pytest -q tests/test_witnesses.py -p no:cacheprovider
"""
import importlib, json, os, sys
import pytest

ROOT = os.path.dirname(os.path.dirname(os.path.abspath(__file__)))
sys.path.insert(0, ROOT)
sys.path.insert(0, os.environ.get('VERIF_REPO', '/repo'))
os.environ.setdefault('NUMBA_DISABLE_JIT', '1')
from mc import engine, run as mcrun

KF = json.load(open(os.path.join(ROOT, 'known_findings.json')))


def _replay(prop, witness):
    mod = importlib.import_module(f'mc.systems.{prop.lower()}')
    viols, obs, body = mcrun.do_replay(mod, os.path.join(ROOT, witness), quiet=True)
    return viols, body


@pytest.mark.parametrize('entry', [e for e in KF['fixed'] if e.get('witness')], ids=lambda e: e['id'])
def test_repaired_defect_stays_repaired(entry):
    viols, body = _replay(entry['property'], entry['witness'])
    open_entries = [f for f in KF['findings'] if f['property'] == entry['property']]
    viols = [v for v in viols if not any(mcrun.matches(f, body['system'], v) for f in open_entries)]
    assert not viols, f"{entry['id']} ({entry['commit']}) is back: {viols[0]['clause']}: {viols[0]['msg'][:300]}"


@pytest.mark.parametrize('entry', [e for e in KF['findings'] if e.get('witness')], ids=lambda e: e['id'])
def test_listed_finding_still_reproduces(entry):
    viols, body = _replay(entry['property'], entry['witness'])
    assert any(mcrun.matches(entry, body['system'], v) for v in viols), \
        f"{entry['id']} no longer reproduces from its witness (stale entry, or the defect was repaired)"
